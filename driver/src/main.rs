// csfacts: rustc_private fact extractor for the cardinalsin verification rules.
//
// Invoked by cargo through RUSTC_WORKSPACE_WRAPPER (argv[1] is the real rustc,
// which is dropped).  For workspace-member crates it writes, under
// $CSFACTS_OUT, one set of JSONL files per crate unit:
//   <unit>.items.jsonl   items, ADT tables, constants
//   <unit>.mir.jsonl     one MIR body per line (pre-coroutine-transform, mir_promoted)
//   <unit>.calls.jsonl   one line per body: its resolved call sites (light index)
//   <unit>.hir.jsonl     one typed HIR tree per fn / method
//   <unit>.done          written last; carries $CSFACTS_NONCE
// Nothing of the analysed program is executed.
#![feature(rustc_private)]
#![allow(unused)]

extern crate rustc_abi;
extern crate rustc_ast;
extern crate rustc_data_structures;
extern crate rustc_driver;
extern crate rustc_hir;
extern crate rustc_interface;
extern crate rustc_middle;
extern crate rustc_span;

use rustc_driver::Compilation;
use rustc_hir as hir;
use rustc_hir::def::{DefKind, Res};
use rustc_hir::def_id::{DefId, LocalDefId, LOCAL_CRATE};
use rustc_interface::interface::Compiler;
use rustc_middle::mir;
use rustc_middle::ty::print::with_no_trimmed_paths;
use rustc_middle::ty::{self, Ty, TyCtxt};
use rustc_span::{ExpnKind, Span};
use std::cell::RefCell;
use std::collections::HashSet;
use rustc_middle::ty::TypeVisitableExt;
use std::fmt::Write as _;
use std::io::Write as _;

// ---------------------------------------------------------------- JSON
enum J {
    Null,
    B(bool),
    I(i128),
    S(String),
    A(Vec<J>),
    O(Vec<(&'static str, J)>),
}
fn s<T: Into<String>>(x: T) -> J {
    J::S(x.into())
}
fn i<T: TryInto<i128>>(x: T) -> J {
    match x.try_into() {
        Ok(v) => J::I(v),
        Err(_) => J::Null,
    }
}
impl J {
    fn w(&self, o: &mut String) {
        match self {
            J::Null => o.push_str("null"),
            J::B(b) => o.push_str(if *b { "true" } else { "false" }),
            J::I(n) => {
                // keep within what every JSON reader takes as an exact integer
                if *n > i64::MAX as i128 * 2 + 1 || *n < i64::MIN as i128 {
                    let _ = write!(o, "\"{}\"", n);
                } else {
                    let _ = write!(o, "{}", n);
                }
            }
            J::S(t) => {
                o.push('"');
                for c in t.chars() {
                    match c {
                        '"' => o.push_str("\\\""),
                        '\\' => o.push_str("\\\\"),
                        '\n' => o.push_str("\\n"),
                        '\r' => o.push_str("\\r"),
                        '\t' => o.push_str("\\t"),
                        c if (c as u32) < 0x20 => {
                            let _ = write!(o, "\\u{:04x}", c as u32);
                        }
                        c => o.push(c),
                    }
                }
                o.push('"');
            }
            J::A(v) => {
                o.push('[');
                for (k, x) in v.iter().enumerate() {
                    if k > 0 {
                        o.push(',');
                    }
                    x.w(o);
                }
                o.push(']');
            }
            J::O(v) => {
                o.push('{');
                let mut first = true;
                for (k, x) in v.iter() {
                    if let J::Null = x {
                        continue;
                    }
                    if !first {
                        o.push(',');
                    }
                    first = false;
                    let _ = write!(o, "\"{}\":", k);
                    x.w(o);
                }
                o.push('}');
            }
        }
    }
    fn line(&self) -> String {
        let mut o = String::new();
        self.w(&mut o);
        o.push('\n');
        o
    }
}
fn trunc(mut t: String, n: usize) -> String {
    if t.len() > n {
        let mut k = n;
        while !t.is_char_boundary(k) {
            k -= 1;
        }
        t.truncate(k);
        t.push('…');
    }
    t
}

// ---------------------------------------------------------------- context
struct Cx<'tcx> {
    tcx: TyCtxt<'tcx>,
    adts: RefCell<HashSet<DefId>>,
    /// (body def, promoted index) -> display of the constants inside that promoted body
    promoted: RefCell<std::collections::HashMap<(DefId, usize), String>>,
}

const NOISE_MACROS: &[&str] = &[
    "info", "debug", "warn", "error", "trace", "event", "span", "info_span", "debug_span",
    "trace_span", "warn_span", "error_span", "counter", "gauge", "histogram", "instrument",
];

impl<'tcx> Cx<'tcx> {
    fn path(&self, d: DefId) -> String {
        with_no_trimmed_paths!(self.tcx.def_path_str(d))
    }
    fn ty(&self, t: Ty<'tcx>) -> String {
        self.note_adt(t);
        trunc(with_no_trimmed_paths!(t.to_string()), 400)
    }
    fn note_adt(&self, t: Ty<'tcx>) {
        let mut t = t;
        loop {
            match t.kind() {
                ty::Ref(_, inner, _) => t = *inner,
                ty::RawPtr(inner, _) => t = *inner,
                ty::Adt(def, args) => {
                    self.adts.borrow_mut().insert(def.did());
                    // look one level into Option<T>/Box<T>/Arc<T>/Result<T,_>
                    let mut next = None;
                    for a in args.iter() {
                        if let Some(inner) = a.as_type() {
                            if let ty::Adt(d2, _) = inner.kind() {
                                self.adts.borrow_mut().insert(d2.did());
                            }
                            if next.is_none() {
                                next = Some(inner);
                            }
                        }
                    }
                    let _ = next;
                    return;
                }
                _ => return,
            }
        }
    }
    fn sp(&self, span: Span) -> String {
        let cs = span.source_callsite();
        let t = self.tcx.sess.source_map().span_to_diagnostic_string(cs);
        // "file:l:c: l:c" -> "file:l:c"
        match t.find(": ") {
            Some(k) => t[..k].to_string(),
            None => t,
        }
    }
    /// expansion info: d = innermost desugaring kind, m = outermost macro (def path), ml = macro is local
    fn expn(&self, span: Span) -> J {
        if !span.from_expansion() {
            return J::Null;
        }
        let mut desug: Option<String> = None;
        let mut mac: Option<(String, bool, String)> = None;
        let mut first = true;
        for e in span.macro_backtrace() {
            match e.kind {
                ExpnKind::Desugaring(k) => {
                    if first {
                        desug = Some(format!("{:?}", k));
                    }
                }
                ExpnKind::Macro(_, name) => {
                    let (p, local) = match e.macro_def_id {
                        Some(d) => (self.path(d), d.is_local()),
                        None => (name.to_string(), false),
                    };
                    mac = Some((p, local, name.to_string()));
                }
                _ => {}
            }
            first = false;
        }
        let mut v = vec![];
        if let Some(d) = desug {
            v.push(("d", s(d)));
        }
        if let Some((p, l, n)) = mac {
            v.push(("m", s(p)));
            v.push(("ml", J::B(l)));
            v.push(("mn", s(n)));
        }
        if v.is_empty() {
            return J::Null;
        }
        J::O(v)
    }
    fn noise_macro(&self, span: Span) -> Option<String> {
        if !span.from_expansion() {
            return None;
        }
        let mut out = None;
        for e in span.macro_backtrace() {
            if let ExpnKind::Macro(_, name) = e.kind {
                let local = e.macro_def_id.map(|d| d.is_local()).unwrap_or(false);
                let n = name.to_string();
                let last = n.rsplit("::").next().unwrap_or("").to_string();
                if !local && NOISE_MACROS.contains(&last.as_str()) {
                    out = Some(n);
                }
            }
        }
        out
    }

    // ------------------------------------------------------------ MIR
    fn field_name(&self, pty: mir::PlaceTy<'tcx>, f: rustc_abi::FieldIdx) -> J {
        match pty.ty.kind() {
            ty::Adt(def, _) => {
                let v = pty.variant_index.unwrap_or(rustc_abi::FIRST_VARIANT);
                if v.as_usize() < def.variants().len() {
                    let var = def.variant(v);
                    if f.as_usize() < var.fields.len() {
                        return s(var.fields[f].name.to_string());
                    }
                }
                J::Null
            }
            ty::Closure(d, _) | ty::Coroutine(d, _) | ty::CoroutineClosure(d, _) => {
                let names = self.tcx.closure_saved_names_of_captured_variables(*d);
                if f.as_usize() < names.len() {
                    s(names[f].to_string())
                } else {
                    J::Null
                }
            }
            _ => J::Null,
        }
    }
    fn place(&self, body: &mir::Body<'tcx>, p: &mir::Place<'tcx>) -> J {
        let mut projs = vec![];
        let mut pty = mir::PlaceTy::from_ty(body.local_decls[p.local].ty);
        for elem in p.projection.iter() {
            match elem {
                mir::ProjectionElem::Deref => projs.push(s("*")),
                mir::ProjectionElem::Field(f, _) => {
                    projs.push(J::O(vec![("f", i(f.as_usize())), ("n", self.field_name(pty, f))]));
                }
                mir::ProjectionElem::Index(l) => projs.push(J::O(vec![("ix", i(l.as_usize()))])),
                mir::ProjectionElem::ConstantIndex { offset, from_end, .. } => {
                    projs.push(J::O(vec![("cix", i(offset)), ("fe", J::B(from_end))]))
                }
                mir::ProjectionElem::Subslice { from, to, from_end } => {
                    projs.push(J::O(vec![("sub", J::A(vec![i(from), i(to)])), ("fe", J::B(from_end))]))
                }
                mir::ProjectionElem::Downcast(name, v) => {
                    let n = match name {
                        Some(n) => n.to_string(),
                        None => format!("#{}", v.as_usize()),
                    };
                    projs.push(J::O(vec![("dc", s(n))]))
                }
                _ => projs.push(s("cast")),
            }
            pty = pty.projection_ty(self.tcx, elem);
        }
        J::O(vec![("l", i(p.local.as_usize())), ("p", if projs.is_empty() { J::Null } else { J::A(projs) })])
    }
    fn konst(&self, body_def: DefId, c: &mir::ConstOperand<'tcx>) -> J {
        let cty = c.const_.ty();
        let mut v = vec![("k", s("const")), ("ty", s(self.ty(cty)))];
        if let ty::FnDef(d, args) = cty.kind() {
            v.push(("fn", s(self.path(*d))));
            v.push(("fnargs", s(trunc(with_no_trimmed_paths!(self.tcx.def_path_str_with_args(*d, args)), 300))));
        } else if let ty::Closure(d, _) = cty.kind() {
            v.push(("closure", s(self.path(*d))));
        } else {
            v.push(("val", s(trunc(with_no_trimmed_paths!(format!("{}", c.const_)), 200))));
            if let mir::Const::Unevaluated(u, _) = c.const_ {
                if let Some(p) = u.promoted {
                    if let Some(pv) = self.promoted.borrow().get(&(u.def, p.as_usize())) {
                        v.push(("pval", s(pv.clone())));
                    }
                }
            }
            let safe = match c.const_ {
                mir::Const::Val(..) => true,
                mir::Const::Ty(..) => true,
                mir::Const::Unevaluated(u, _) => {
                    u.promoted.is_none() && matches!(self.tcx.def_kind(u.def), DefKind::Const { .. } | DefKind::AssocConst { .. })
                }
            };
            if safe && (cty.is_integral() || cty.is_bool() || cty.is_char()) {
                let env = ty::TypingEnv::post_analysis(self.tcx, body_def);
                if let Some(sc) = c.const_.try_eval_scalar_int(self.tcx, env) {
                    let size = sc.size();
                    if cty.is_signed() {
                        v.push(("int", i(sc.to_int(size))));
                    } else {
                        v.push(("int", i(sc.to_uint(size) as i128)));
                    }
                }
            }
        }
        J::O(v)
    }
    fn operand(&self, body_def: DefId, body: &mir::Body<'tcx>, o: &mir::Operand<'tcx>) -> J {
        match o {
            mir::Operand::Copy(p) => J::O(vec![("k", s("copy")), ("pl", self.place(body, p))]),
            mir::Operand::Move(p) => J::O(vec![("k", s("move")), ("pl", self.place(body, p))]),
            mir::Operand::Constant(c) => self.konst(body_def, c),
            _ => J::O(vec![("k", s("other")), ("dbg", s(trunc(format!("{:?}", o), 200)))]),
        }
    }
    fn rvalue(&self, body_def: DefId, body: &mir::Body<'tcx>, r: &mir::Rvalue<'tcx>) -> J {
        use mir::Rvalue::*;
        match r {
            Use(o, ..) => J::O(vec![("k", s("use")), ("o", self.operand(body_def, body, o))]),
            Ref(_, bk, p) => J::O(vec![
                ("k", s("ref")),
                ("mut", J::B(matches!(bk, mir::BorrowKind::Mut { .. }))),
                ("pl", self.place(body, p)),
            ]),
            RawPtr(_, p) => J::O(vec![("k", s("rawptr")), ("pl", self.place(body, p))]),
            CopyForDeref(p) => J::O(vec![("k", s("use")), ("o", J::O(vec![("k", s("copy")), ("pl", self.place(body, p))]))]),
            BinaryOp(op, ab) => J::O(vec![
                ("k", s("bin")),
                ("op", s(format!("{:?}", op))),
                ("a", self.operand(body_def, body, &ab.0)),
                ("b", self.operand(body_def, body, &ab.1)),
            ]),
            UnaryOp(op, a) => J::O(vec![
                ("k", s("un")),
                ("op", s(format!("{:?}", op))),
                ("a", self.operand(body_def, body, a)),
            ]),
            Cast(kind, o, t) => J::O(vec![
                ("k", s("cast")),
                ("ck", s(trunc(format!("{:?}", kind), 80))),
                ("o", self.operand(body_def, body, o)),
                ("ty", s(self.ty(*t))),
            ]),
            Discriminant(p) => J::O(vec![("k", s("discr")), ("pl", self.place(body, p))]),
            Aggregate(kind, ops) => {
                let mut v = vec![("k", s("agg"))];
                match &**kind {
                    mir::AggregateKind::Tuple => v.push(("ak", s("tuple"))),
                    mir::AggregateKind::Array(_) => v.push(("ak", s("array"))),
                    mir::AggregateKind::Adt(d, vi, _, _, active) => {
                        v.push(("ak", s("adt")));
                        v.push(("adt", s(self.path(*d))));
                        let def = self.tcx.adt_def(*d);
                        self.adts.borrow_mut().insert(*d);
                        let var = def.variant(*vi);
                        v.push(("variant", s(var.name.to_string())));
                        let names: Vec<J> = match active {
                            Some(f) => vec![s(var.fields[*f].name.to_string())],
                            None => var.fields.iter().map(|f| s(f.name.to_string())).collect(),
                        };
                        v.push(("fields", J::A(names)));
                    }
                    mir::AggregateKind::Closure(d, _) => {
                        v.push(("ak", s("closure")));
                        v.push(("def", s(self.path(*d))));
                        let names = self.tcx.closure_saved_names_of_captured_variables(*d);
                        v.push(("fields", J::A(names.iter().map(|n| s(n.to_string())).collect())));
                    }
                    mir::AggregateKind::Coroutine(d, _) => {
                        v.push(("ak", s("coroutine")));
                        v.push(("def", s(self.path(*d))));
                        let names = self.tcx.closure_saved_names_of_captured_variables(*d);
                        v.push(("fields", J::A(names.iter().map(|n| s(n.to_string())).collect())));
                    }
                    other => {
                        v.push(("ak", s("other")));
                        v.push(("dbg", s(trunc(format!("{:?}", other), 120))));
                    }
                }
                v.push(("ops", J::A(ops.iter().map(|o| self.operand(body_def, body, o)).collect())));
                J::O(v)
            }
            Repeat(o, _) => J::O(vec![("k", s("repeat")), ("o", self.operand(body_def, body, o))]),
            other => J::O(vec![("k", s("other")), ("dbg", s(trunc(format!("{:?}", other), 200)))]),
        }
    }

    fn switch_variants(&self, body: &mir::Body<'tcx>, bb: &mir::BasicBlockData<'tcx>, discr: &mir::Operand<'tcx>, values: &[u128]) -> (J, J, J) {
        // find `_d = discriminant(place)` in this block
        let dl = match discr {
            mir::Operand::Copy(p) | mir::Operand::Move(p) if p.projection.is_empty() => p.local,
            _ => return (J::Null, J::Null, J::Null),
        };
        for st in bb.statements.iter().rev() {
            if let mir::StatementKind::Assign(bx) = &st.kind {
                let (lhs, rv) = &**bx;
                if lhs.local == dl && lhs.projection.is_empty() {
                    if let mir::Rvalue::Discriminant(p) = rv {
                        let pty = p.ty(&body.local_decls, self.tcx).ty;
                        if let ty::Adt(def, _) = pty.kind() {
                            if def.is_enum() {
                                let mut names = vec![];
                                for v in values {
                                    let mut found = J::Null;
                                    for (vi, d) in def.discriminants(self.tcx) {
                                        if d.val == *v {
                                            found = s(def.variant(vi).name.to_string());
                                            break;
                                        }
                                    }
                                    names.push(found);
                                }
                                let all: Vec<J> = def.variants().iter().map(|v| s(v.name.to_string())).collect();
                                return (J::A(names), s(self.path(def.did())), J::A(all));
                            }
                        }
                        return (J::Null, J::Null, J::Null);
                    }
                    return (J::Null, J::Null, J::Null);
                }
            }
        }
        (J::Null, J::Null, J::Null)
    }

    fn callee(&self, body_def: DefId, body: &mir::Body<'tcx>, func: &mir::Operand<'tcx>, v: &mut Vec<(&'static str, J)>) {
        let fty = func.ty(&body.local_decls, self.tcx);
        match fty.kind() {
            ty::FnDef(d, args) => {
                v.push(("callee", s(self.path(*d))));
                v.push(("cargs", s(trunc(with_no_trimmed_paths!(self.tcx.def_path_str_with_args(*d, args)), 300))));
                if d.is_local() {
                    v.push(("clocal", J::B(true)));
                }
                // self type of trait / method calls = first type arg
                if let Some(t0) = args.types().next() {
                    v.push(("self_ty", s(self.ty(t0))));
                }
                if !args.has_escaping_bound_vars() {
                    let env = ty::TypingEnv::post_analysis(self.tcx, body_def);
                    if let Ok(Some(inst)) = ty::Instance::try_resolve(self.tcx, env, *d, args) {
                        let rd = inst.def_id();
                        if rd != *d {
                            v.push(("resolved", s(self.path(rd))));
                            if rd.is_local() {
                                v.push(("rlocal", J::B(true)));
                            }
                        }
                    }
                }
            }
            _ => {
                v.push(("callee", s("<indirect>")));
                v.push(("fty", s(self.ty(fty))));
                v.push(("fop", self.operand(body_def, body, func)));
            }
        }
    }

    fn mir_body(&self, ldid: LocalDefId, body: &mir::Body<'tcx>) -> (J, J) {
        let tcx = self.tcx;
        let def = ldid.to_def_id();
        let mut locals = vec![];
        for (l, d) in body.local_decls.iter_enumerated() {
            locals.push(J::O(vec![
                ("ty", s(self.ty(d.ty))),
                ("user", if d.is_user_variable() { J::B(true) } else { J::Null }),
            ]));
        }
        let mut dbg = vec![];
        for vdi in body.var_debug_info.iter() {
            match &vdi.value {
                mir::VarDebugInfoContents::Place(p) => {
                    dbg.push(J::O(vec![("name", s(vdi.name.to_string())), ("pl", self.place(body, p))]));
                }
                _ => {}
            }
        }
        let mut blocks = vec![];
        let mut calls = vec![];
        for (bi, bb) in body.basic_blocks.iter_enumerated() {
            let mut stmts = vec![];
            for st in bb.statements.iter() {
                match &st.kind {
                    mir::StatementKind::Assign(bx) => {
                        let (lhs, rv) = &**bx;
                        stmts.push(J::O(vec![
                            ("lhs", self.place(body, lhs)),
                            ("rv", self.rvalue(def, body, rv)),
                            ("sp", s(self.sp(st.source_info.span))),
                            ("expn", self.expn(st.source_info.span)),
                        ]));
                    }
                    mir::StatementKind::SetDiscriminant { place, variant_index } => {
                        stmts.push(J::O(vec![
                            ("lhs", self.place(body, place)),
                            ("rv", J::O(vec![("k", s("setdiscr")), ("v", i(variant_index.as_usize()))])),
                            ("sp", s(self.sp(st.source_info.span))),
                        ]));
                    }
                    _ => {}
                }
            }
            let term = bb.terminator();
            let span = term.source_info.span;
            let mut t: Vec<(&'static str, J)> = vec![];
            use mir::TerminatorKind::*;
            match &term.kind {
                Goto { target } => {
                    t.push(("k", s("goto")));
                    t.push(("target", i(target.as_usize())));
                }
                SwitchInt { discr, targets } => {
                    t.push(("k", s("switch")));
                    t.push(("discr", self.operand(def, body, discr)));
                    let vals: Vec<u128> = targets.iter().map(|(v, _)| v).collect();
                    t.push(("values", J::A(vals.iter().map(|v| i(*v as i128)).collect())));
                    t.push(("targets", J::A(targets.iter().map(|(_, b)| i(b.as_usize())).collect())));
                    t.push(("otherwise", i(targets.otherwise().as_usize())));
                    let (names, en, all) = self.switch_variants(body, bb, discr, &vals);
                    t.push(("variants", names));
                    t.push(("enum", en));
                    t.push(("allvariants", all));
                    t.push(("dty", s(self.ty(discr.ty(&body.local_decls, tcx)))));
                }
                Call { func, args, destination, target, unwind, fn_span, .. } => {
                    t.push(("k", s("call")));
                    self.callee(def, body, func, &mut t);
                    t.push(("args", J::A(args.iter().map(|a| self.operand(def, body, &a.node)).collect())));
                    t.push(("dest", self.place(body, destination)));
                    t.push(("target", match target { Some(b) => i(b.as_usize()), None => J::Null }));
                    if let mir::UnwindAction::Cleanup(b) = unwind {
                        t.push(("unwind", i(b.as_usize())));
                    }
                    // light index entry
                    let mut c: Vec<(&'static str, J)> = vec![("b", i(bi.as_usize()))];
                    let mut tmp = vec![];
                    self.callee(def, body, func, &mut tmp);
                    for (k, v) in tmp {
                        if k == "callee" || k == "resolved" || k == "self_ty" || k == "rlocal" || k == "clocal" {
                            c.push((k, v));
                        }
                    }
                    // closure / fn-item arguments (spawn, map, retain, ...)
                    let mut fargs = vec![];
                    for a in args.iter() {
                        let aty = a.node.ty(&body.local_decls, tcx);
                        match aty.kind() {
                            ty::Closure(d, _) | ty::Coroutine(d, _) | ty::CoroutineClosure(d, _) => fargs.push(s(self.path(*d))),
                            ty::FnDef(d, _) => fargs.push(s(self.path(*d))),
                            _ => {}
                        }
                    }
                    if !fargs.is_empty() {
                        c.push(("fargs", J::A(fargs)));
                    }
                    c.push(("sp", s(self.sp(span))));
                    if let Some(n) = self.noise_macro(span) {
                        c.push(("noise", s(n)));
                    }
                    if bb.is_cleanup {
                        c.push(("cleanup", J::B(true)));
                    }
                    calls.push(J::O(c));
                }
                TailCall { func, args, .. } => {
                    t.push(("k", s("tailcall")));
                    self.callee(def, body, func, &mut t);
                    t.push(("args", J::A(args.iter().map(|a| self.operand(def, body, &a.node)).collect())));
                }
                Drop { place, target, unwind, .. } => {
                    t.push(("k", s("drop")));
                    t.push(("pl", self.place(body, place)));
                    t.push(("target", i(target.as_usize())));
                    if let mir::UnwindAction::Cleanup(b) = unwind {
                        t.push(("unwind", i(b.as_usize())));
                    }
                }
                Assert { cond, expected, msg, target, .. } => {
                    t.push(("k", s("assert")));
                    t.push(("cond", self.operand(def, body, cond)));
                    t.push(("expected", J::B(*expected)));
                    let (kind, ops): (String, Vec<J>) = match &**msg {
                        mir::AssertKind::BoundsCheck { len, index } => {
                            ("BoundsCheck".into(), vec![self.operand(def, body, len), self.operand(def, body, index)])
                        }
                        mir::AssertKind::Overflow(op, a, b) => {
                            (format!("Overflow:{:?}", op), vec![self.operand(def, body, a), self.operand(def, body, b)])
                        }
                        mir::AssertKind::OverflowNeg(a) => ("OverflowNeg".into(), vec![self.operand(def, body, a)]),
                        mir::AssertKind::DivisionByZero(a) => ("DivisionByZero".into(), vec![self.operand(def, body, a)]),
                        mir::AssertKind::RemainderByZero(a) => ("RemainderByZero".into(), vec![self.operand(def, body, a)]),
                        other => (trunc(format!("{:?}", other), 60), vec![]),
                    };
                    t.push(("akind", s(kind)));
                    t.push(("aops", J::A(ops)));
                    t.push(("target", i(target.as_usize())));
                }
                Yield { value, resume, resume_arg, drop } => {
                    t.push(("k", s("yield")));
                    t.push(("target", i(resume.as_usize())));
                    t.push(("resume_arg", self.place(body, resume_arg)));
                    if let Some(d) = drop {
                        t.push(("drop", i(d.as_usize())));
                    }
                }
                Return => t.push(("k", s("return"))),
                Unreachable => t.push(("k", s("unreachable"))),
                UnwindResume => t.push(("k", s("resume"))),
                UnwindTerminate(_) => t.push(("k", s("terminate"))),
                CoroutineDrop => t.push(("k", s("coroutine_drop"))),
                FalseEdge { real_target, .. } => {
                    t.push(("k", s("goto")));
                    t.push(("target", i(real_target.as_usize())));
                    t.push(("false", J::B(true)));
                }
                FalseUnwind { real_target, .. } => {
                    t.push(("k", s("goto")));
                    t.push(("target", i(real_target.as_usize())));
                    t.push(("false", J::B(true)));
                }
                InlineAsm { .. } => t.push(("k", s("asm"))),
            }
            t.push(("sp", s(self.sp(span))));
            t.push(("expn", self.expn(span)));
            blocks.push(J::O(vec![
                ("cleanup", if bb.is_cleanup { J::B(true) } else { J::Null }),
                ("stmts", J::A(stmts)),
                ("term", J::O(t)),
            ]));
        }
        let kind = match tcx.def_kind(def) {
            DefKind::Closure => {
                if tcx.coroutine_kind(def).is_some() {
                    "coroutine"
                } else {
                    "closure"
                }
            }
            _ => "fn",
        };
        let key = self.path(def);
        let m = J::O(vec![
            ("k", s("mir")),
            ("def", s(key.clone())),
            ("kind", s(kind)),
            ("args", i(body.arg_count)),
            ("span", s(self.sp(body.span))),
            ("locals", J::A(locals)),
            ("dbg", J::A(dbg)),
            ("blocks", J::A(blocks)),
        ]);
        let c = J::O(vec![("def", s(key)), ("kind", s(kind)), ("span", s(self.sp(body.span))), ("calls", J::A(calls))]);
        (m, c)
    }

    // ------------------------------------------------------------ HIR
    fn res(&self, r: Res) -> J {
        match r {
            Res::Local(id) => J::O(vec![("k", s("local")), ("name", s(self.tcx.hir_name(id).to_string())), ("id", s(format!("{}", id.local_id.as_u32())))]),
            Res::Def(kind, d) => J::O(vec![("k", s("def")), ("dk", s(format!("{:?}", kind))), ("path", s(self.path(d)))]),
            Res::SelfCtor(d) | Res::SelfTyAlias { alias_to: d, .. } => J::O(vec![("k", s("def")), ("dk", s("SelfCtor")), ("path", s(self.path(d)))]),
            other => J::O(vec![("k", s("res")), ("dbg", s(trunc(format!("{:?}", other), 100)))]),
        }
    }
    fn qpath(&self, tr: &ty::TypeckResults<'tcx>, q: &hir::QPath<'tcx>, id: hir::HirId) -> J {
        self.res(tr.qpath_res(q, id))
    }
    fn lit(&self, l: &rustc_ast::LitKind) -> J {
        use rustc_ast::LitKind::*;
        match l {
            Str(sym, _) => J::O(vec![("k", s("lit")), ("t", s("str")), ("v", s(sym.to_string()))]),
            Int(n, _) => J::O(vec![("k", s("lit")), ("t", s("int")), ("v", i(n.get() as i128))]),
            Bool(b) => J::O(vec![("k", s("lit")), ("t", s("bool")), ("v", J::B(*b))]),
            Float(sym, _) => J::O(vec![("k", s("lit")), ("t", s("float")), ("v", s(sym.to_string()))]),
            Char(c) => J::O(vec![("k", s("lit")), ("t", s("char")), ("v", s(c.to_string()))]),
            other => J::O(vec![("k", s("lit")), ("t", s("other")), ("v", s(trunc(format!("{:?}", other), 80)))]),
        }
    }
    fn pat(&self, tr: &ty::TypeckResults<'tcx>, p: &hir::Pat<'tcx>) -> J {
        use hir::PatKind::*;
        match &p.kind {
            Wild => J::O(vec![("k", s("pwild"))]),
            Binding(mode, id, ident, sub) => J::O(vec![
                ("k", s("pbind")),
                ("name", s(ident.name.to_string())),
                ("id", s(format!("{}", id.local_id.as_u32()))),
                ("sub", match sub { Some(x) => self.pat(tr, x), None => J::Null }),
            ]),
            Struct(q, fields, _) => J::O(vec![
                ("k", s("pstruct")),
                ("path", self.qpath(tr, q, p.hir_id)),
                ("fields", J::A(fields.iter().map(|f| J::A(vec![s(f.ident.name.to_string()), self.pat(tr, f.pat)])).collect())),
            ]),
            TupleStruct(q, pats, _) => J::O(vec![
                ("k", s("ptuplestruct")),
                ("path", self.qpath(tr, q, p.hir_id)),
                ("subs", J::A(pats.iter().map(|x| self.pat(tr, x)).collect())),
            ]),
            Or(pats) => J::O(vec![("k", s("por")), ("alts", J::A(pats.iter().map(|x| self.pat(tr, x)).collect()))]),
            Tuple(pats, _) => J::O(vec![("k", s("ptuple")), ("subs", J::A(pats.iter().map(|x| self.pat(tr, x)).collect()))]),
            Box(x) | Deref(x) => J::O(vec![("k", s("pref")), ("sub", self.pat(tr, x))]),
            Ref(x, ..) => J::O(vec![("k", s("pref")), ("sub", self.pat(tr, x))]),
            Expr(pe) => match &pe.kind {
                hir::PatExprKind::Lit { lit, negated } => J::O(vec![("k", s("plit")), ("neg", J::B(*negated)), ("lit", self.lit(&lit.node))]),
                hir::PatExprKind::Path(q) => J::O(vec![("k", s("ppath")), ("path", self.qpath(tr, q, pe.hir_id))]),
                _ => J::O(vec![("k", s("pother"))]),
            },
            Slice(a, m, b) => J::O(vec![
                ("k", s("pslice")),
                ("subs", J::A(a.iter().chain(m.iter().copied()).chain(b.iter()).map(|x| self.pat(tr, x)).collect())),
            ]),
            Range(..) => J::O(vec![("k", s("prange"))]),
            _ => J::O(vec![("k", s("pother"))]),
        }
    }
    fn opt_expr(&self, tr: &ty::TypeckResults<'tcx>, e: Option<&hir::Expr<'tcx>>) -> J {
        match e {
            Some(x) => self.expr(tr, x),
            None => J::Null,
        }
    }
    fn ety(&self, tr: &ty::TypeckResults<'tcx>, e: &hir::Expr<'tcx>) -> J {
        match tr.expr_ty_opt(e) {
            Some(t) => s(trunc(with_no_trimmed_paths!(t.to_string()), 200)),
            None => J::Null,
        }
    }
    fn block(&self, tr: &ty::TypeckResults<'tcx>, b: &hir::Block<'tcx>) -> J {
        let mut stmts = vec![];
        for st in b.stmts.iter() {
            match &st.kind {
                hir::StmtKind::Let(l) => stmts.push(J::O(vec![
                    ("k", s("slet")),
                    ("pat", self.pat(tr, l.pat)),
                    ("init", self.opt_expr(tr, l.init)),
                    ("els", match l.els { Some(b) => self.block(tr, b), None => J::Null }),
                    ("sp", s(self.sp(st.span))),
                ])),
                hir::StmtKind::Expr(e) | hir::StmtKind::Semi(e) => stmts.push(self.expr(tr, e)),
                hir::StmtKind::Item(_) => {}
            }
        }
        J::O(vec![("k", s("block")), ("stmts", J::A(stmts)), ("tail", self.opt_expr(tr, b.expr))])
    }
    fn is_lang_call<'a>(&self, e: &'a hir::Expr<'tcx>) -> Option<&'a hir::Expr<'tcx>> {
        // Call(path, [arg]) -> arg
        if let hir::ExprKind::Call(_, args) = &e.kind {
            if args.len() == 1 {
                return Some(&args[0]);
            }
        }
        None
    }
    fn expr(&self, tr: &ty::TypeckResults<'tcx>, e: &hir::Expr<'tcx>) -> J {
        use hir::ExprKind::*;
        if let Some(n) = self.noise_macro(e.span) {
            return J::O(vec![("k", s("macro")), ("name", s(n)), ("sp", s(self.sp(e.span)))]);
        }
        let sp = s(self.sp(e.span));
        match &e.kind {
            Lit(l) => self.lit(&l.node),
            Path(q) => self.qpath(tr, q, e.hir_id),
            Call(f, args) => J::O(vec![
                ("k", s("call")),
                ("f", self.expr(tr, f)),
                ("args", J::A(args.iter().map(|a| self.expr(tr, a)).collect())),
                ("sp", sp),
            ]),
            MethodCall(seg, recv, args, _) => {
                let d = tr.type_dependent_def_id(e.hir_id);
                J::O(vec![
                    ("k", s("mcall")),
                    ("name", s(seg.ident.name.to_string())),
                    ("def", match d { Some(d) => s(self.path(d)), None => J::Null }),
                    ("recv", self.expr(tr, recv)),
                    ("rty", self.ety(tr, recv)),
                    ("args", J::A(args.iter().map(|a| self.expr(tr, a)).collect())),
                    ("sp", sp),
                ])
            }
            Binary(op, a, b) => J::O(vec![
                ("k", s("bin")),
                ("op", s(op.node.as_str())),
                ("a", self.expr(tr, a)),
                ("b", self.expr(tr, b)),
                ("aty", self.ety(tr, a)),
                ("sp", sp),
            ]),
            Unary(op, a) => J::O(vec![("k", s("un")), ("op", s(op.as_str())), ("a", self.expr(tr, a))]),
            Cast(a, _) => J::O(vec![("k", s("cast")), ("a", self.expr(tr, a)), ("ty", self.ety(tr, e))]),
            Type(a, _) => self.expr(tr, a),
            DropTemps(a) => self.expr(tr, a),
            Use(a, _) => self.expr(tr, a),
            Let(l) => J::O(vec![("k", s("let")), ("pat", self.pat(tr, l.pat)), ("init", self.expr(tr, l.init))]),
            If(c, t, f) => J::O(vec![
                ("k", s("if")),
                ("cond", self.expr(tr, c)),
                ("then", self.expr(tr, t)),
                ("els", self.opt_expr(tr, *f)),
                ("sp", sp),
            ]),
            Loop(b, _, src, _) => {
                let srcs = format!("{:?}", src);
                J::O(vec![("k", s("loop")), ("src", s(srcs)), ("body", self.block(tr, b)), ("sp", sp)])
            }
            Match(scrut, arms, src) => {
                match src {
                    hir::MatchSource::TryDesugar(_) => {
                        if let Some(inner) = self.is_lang_call(scrut) {
                            return J::O(vec![("k", s("try")), ("e", self.expr(tr, inner)), ("sp", sp)]);
                        }
                    }
                    hir::MatchSource::AwaitDesugar => {
                        if let Some(inner) = self.is_lang_call(scrut) {
                            return J::O(vec![("k", s("await")), ("e", self.expr(tr, inner)), ("sp", sp)]);
                        }
                    }
                    hir::MatchSource::ForLoopDesugar => {
                        // match into_iter(ITER) { mut iter => loop { match next(&mut iter) { None => break, Some(PAT) => BODY } } }
                        if let Some(iter) = self.is_lang_call(scrut) {
                            if arms.len() == 1 {
                                if let Loop(lb, _, _, _) = &arms[0].body.kind {
                                    let inner = lb.expr.or_else(|| {
                                        lb.stmts.first().and_then(|st| match &st.kind {
                                            hir::StmtKind::Expr(x) | hir::StmtKind::Semi(x) => Some(*x),
                                            _ => None,
                                        })
                                    });
                                    if let Some(inner) = inner {
                                        if let Match(_, iarms, _) = &inner.kind {
                                            if iarms.len() == 2 {
                                                let some = &iarms[1];
                                                let pat = match &some.pat.kind {
                                                    hir::PatKind::TupleStruct(_, ps, _) if ps.len() == 1 => self.pat(tr, &ps[0]),
                                                    hir::PatKind::Struct(_, fs, _) if fs.len() == 1 => self.pat(tr, fs[0].pat),
                                                    _ => self.pat(tr, some.pat),
                                                };
                                                return J::O(vec![
                                                    ("k", s("for")),
                                                    ("pat", pat),
                                                    ("iter", self.expr(tr, iter)),
                                                    ("body", self.expr(tr, some.body)),
                                                    ("sp", sp),
                                                ]);
                                            }
                                        }
                                    }
                                }
                            }
                        }
                    }
                    _ => {}
                }
                J::O(vec![
                    ("k", s("match")),
                    ("scrut", self.expr(tr, scrut)),
                    ("sty", self.ety(tr, scrut)),
                    ("src", s(trunc(format!("{:?}", src), 40))),
                    ("arms", J::A(arms.iter().map(|a| J::O(vec![
                        ("pat", self.pat(tr, a.pat)),
                        ("guard", self.opt_expr(tr, a.guard)),
                        ("body", self.expr(tr, a.body)),
                        ("sp", s(self.sp(a.span))),
                    ])).collect())),
                    ("sp", sp),
                ])
            }
            Closure(c) => {
                let body = self.tcx.hir_body(c.body);
                J::O(vec![
                    ("k", s("closure")),
                    ("def", s(self.path(c.def_id.to_def_id()))),
                    ("ckind", s(trunc(format!("{:?}", c.kind), 60))),
                    ("params", J::A(body.params.iter().map(|p| self.pat(tr, p.pat)).collect())),
                    ("body", self.expr(tr, body.value)),
                    ("sp", sp),
                ])
            }
            Block(b, _) => self.block(tr, b),
            Assign(l, r, _) => J::O(vec![("k", s("assign")), ("l", self.expr(tr, l)), ("r", self.expr(tr, r)), ("sp", sp)]),
            AssignOp(op, l, r) => J::O(vec![
                ("k", s("assignop")),
                ("op", s(op.node.as_str())),
                ("l", self.expr(tr, l)),
                ("r", self.expr(tr, r)),
                ("sp", sp),
            ]),
            Field(b, ident) => J::O(vec![("k", s("field")), ("e", self.expr(tr, b)), ("name", s(ident.name.to_string())), ("bty", self.ety(tr, b))]),
            Index(b, ix, _) => J::O(vec![("k", s("index")), ("e", self.expr(tr, b)), ("i", self.expr(tr, ix)), ("bty", self.ety(tr, b)), ("sp", sp)]),
            AddrOf(_, m, a) => J::O(vec![("k", s("ref")), ("mut", J::B(m.is_mut())), ("a", self.expr(tr, a))]),
            Break(dest, v) => J::O(vec![
                ("k", s("break")),
                ("label", match dest.label { Some(l) => s(l.ident.name.to_string()), None => J::Null }),
                ("e", self.opt_expr(tr, *v)),
                ("sp", sp),
            ]),
            Continue(_) => J::O(vec![("k", s("continue")), ("sp", sp)]),
            Ret(v) => J::O(vec![("k", s("ret")), ("e", self.opt_expr(tr, *v)), ("sp", sp)]),
            Struct(q, fields, tail) => {
                let base = match tail {
                    hir::StructTailExpr::Base(b) => self.expr(tr, b),
                    _ => J::Null,
                };
                J::O(vec![
                    ("k", s("struct")),
                    ("path", self.qpath(tr, q, e.hir_id)),
                    ("fields", J::A(fields.iter().map(|f| J::A(vec![s(f.ident.name.to_string()), self.expr(tr, f.expr)])).collect())),
                    ("base", base),
                    ("sp", sp),
                ])
            }
            Tup(xs) => J::O(vec![("k", s("tup")), ("es", J::A(xs.iter().map(|a| self.expr(tr, a)).collect()))]),
            Array(xs) => J::O(vec![("k", s("array")), ("es", J::A(xs.iter().map(|a| self.expr(tr, a)).collect()))]),
            Repeat(a, _) => J::O(vec![("k", s("repeat")), ("a", self.expr(tr, a))]),
            Yield(a, _) => J::O(vec![("k", s("yield")), ("a", self.expr(tr, a))]),
            other => J::O(vec![("k", s("other")), ("sp", sp)]),
        }
    }
    fn hir_fn(&self, ldid: LocalDefId) -> J {
        let tcx = self.tcx;
        let body = tcx.hir_body_owned_by(ldid);
        let tr = tcx.typeck(ldid);
        J::O(vec![
            ("k", s("hir")),
            ("def", s(self.path(ldid.to_def_id()))),
            ("params", J::A(body.params.iter().map(|p| self.pat(tr, p.pat)).collect())),
            ("span", s(self.sp(tcx.def_span(ldid)))),
            ("tree", self.expr(tr, body.value)),
        ])
    }

    // ------------------------------------------------------------ items
    fn vis(&self, v: ty::Visibility<DefId>) -> J {
        match v {
            ty::Visibility::Public => s("pub"),
            ty::Visibility::Restricted(m) => s(format!("in:{}", self.path(m))),
        }
    }
    fn adt_table(&self, d: DefId) -> J {
        let tcx = self.tcx;
        let def = tcx.adt_def(d);
        let mut variants = vec![];
        for v in def.variants().iter() {
            let mut fields = vec![];
            for f in v.fields.iter() {
                let fty = tcx.type_of(f.did).instantiate_identity().skip_norm_wip();
                fields.push(J::O(vec![
                    ("name", s(f.name.to_string())),
                    ("ty", s(trunc(with_no_trimmed_paths!(fty.to_string()), 300))),
                    ("vis", self.vis(f.vis)),
                ]));
            }
            variants.push(J::O(vec![("name", s(v.name.to_string())), ("fields", J::A(fields))]));
        }
        J::O(vec![
            ("k", s("adt")),
            ("def", s(self.path(d))),
            ("akind", s(if def.is_enum() { "enum" } else if def.is_union() { "union" } else { "struct" })),
            ("local", J::B(d.is_local())),
            ("variants", J::A(variants)),
        ])
    }
}

// ---------------------------------------------------------------- driver
struct Cb;

fn extract<'tcx>(tcx: TyCtxt<'tcx>, unit: &str, out_dir: &str) {
    let cx = Cx { tcx, adts: RefCell::new(HashSet::new()), promoted: RefCell::new(std::collections::HashMap::new()) };
    // pass 1: clone every body before any query that could force borrowck (which steals mir_promoted)
    let mut bodies: Vec<(LocalDefId, mir::Body<'tcx>)> = vec![];
    let mut stolen = 0usize;
    for &ldid in tcx.mir_keys(()).iter() {
        let dk = tcx.def_kind(ldid);
        if !matches!(dk, DefKind::Fn | DefKind::AssocFn | DefKind::Closure) {
            continue;
        }
        let (steal, promoted) = tcx.mir_promoted(ldid);
        if steal.is_stolen() {
            stolen += 1;
            continue;
        }
        let b = steal.borrow();
        bodies.push((ldid, (*b).clone()));
        if !promoted.is_stolen() {
            let ps = promoted.borrow();
            for (pi, pb) in ps.iter_enumerated() {
                let mut vals: Vec<String> = vec![];
                for bb in pb.basic_blocks.iter() {
                    for st in bb.statements.iter() {
                        if let mir::StatementKind::Assign(bx) = &st.kind {
                            let mut push = |o: &mir::Operand<'tcx>| {
                                if let mir::Operand::Constant(c) = o {
                                    if !matches!(c.const_, mir::Const::Unevaluated(..)) {
                                        vals.push(with_no_trimmed_paths!(format!("{}", c.const_)));
                                    }
                                }
                            };
                            match &bx.1 {
                                mir::Rvalue::Use(o, ..) => push(o),
                                mir::Rvalue::Cast(_, o, _) => push(o),
                                mir::Rvalue::Aggregate(_, ops) => {
                                    for o in ops.iter() {
                                        push(o)
                                    }
                                }
                                _ => {}
                            }
                        }
                    }
                }
                if !vals.is_empty() {
                    cx.promoted.borrow_mut().insert((ldid.to_def_id(), pi.as_usize()), trunc(vals.join(","), 200));
                }
            }
        }
    }
    bodies.sort_by_key(|(d, _)| cx.path(d.to_def_id()));

    // HIR first (typeck only)
    let mut hir_out = String::new();
    let mut n_hir = 0usize;
    for ldid in tcx.hir_body_owners() {
        let dk = tcx.def_kind(ldid);
        if !matches!(dk, DefKind::Fn | DefKind::AssocFn) {
            continue;
        }
        hir_out.push_str(&cx.hir_fn(ldid).line());
        n_hir += 1;
    }

    let mut mir_out = String::new();
    let mut calls_out = String::new();
    for (ldid, body) in bodies.iter() {
        let (m, c) = cx.mir_body(*ldid, body);
        mir_out.push_str(&m.line());
        calls_out.push_str(&c.line());
    }

    // items
    let mut items_out = String::new();
    for ldid in tcx.hir_crate_items(()).definitions() {
        let d = ldid.to_def_id();
        let dk = tcx.def_kind(d);
        match dk {
            DefKind::Fn | DefKind::AssocFn => {
                items_out.push_str(
                    &J::O(vec![
                        ("k", s("item")),
                        ("def", s(cx.path(d))),
                        ("dk", s(format!("{:?}", dk))),
                        ("vis", cx.vis(tcx.visibility(d))),
                        ("span", s(cx.sp(tcx.def_span(d)))),
                    ])
                    .line(),
                );
            }
            DefKind::Struct | DefKind::Enum => {
                cx.adts.borrow_mut().insert(d);
                items_out.push_str(
                    &J::O(vec![
                        ("k", s("item")),
                        ("def", s(cx.path(d))),
                        ("dk", s(format!("{:?}", dk))),
                        ("vis", cx.vis(tcx.visibility(d))),
                        ("span", s(cx.sp(tcx.def_span(d)))),
                    ])
                    .line(),
                );
            }
            DefKind::Const { .. } | DefKind::AssocConst { .. } => {
                let cty = tcx.type_of(d).instantiate_identity().skip_norm_wip();
                let mut v = vec![
                    ("k", s("const")),
                    ("def", s(cx.path(d))),
                    ("ty", s(cx.ty(cty))),
                    ("span", s(cx.sp(tcx.def_span(d)))),
                ];
                let in_plain_impl = matches!(dk, DefKind::AssocConst { .. })
                    && matches!(tcx.def_kind(tcx.parent(d)), DefKind::Impl { .. })
                    && tcx.generics_of(tcx.parent(d)).count() == 0;
                if (cty.is_integral() || cty.is_bool()) && tcx.generics_of(d).is_empty() && (matches!(dk, DefKind::Const { .. }) || in_plain_impl) {
                    if let Ok(val) = tcx.const_eval_poly(d) {
                        if let Some(sc) = val.try_to_scalar_int() {
                            let size = sc.size();
                            if cty.is_signed() {
                                v.push(("int", i(sc.to_int(size))));
                            } else {
                                v.push(("int", i(sc.to_uint(size) as i128)));
                            }
                        }
                    }
                }
                items_out.push_str(&J::O(v).line());
            }
            _ => {}
        }
    }
    let mut adts: Vec<DefId> = cx.adts.borrow().iter().copied().collect();
    adts.sort_by_key(|d| cx.path(*d));
    for d in adts {
        items_out.push_str(&cx.adt_table(d).line());
    }
    items_out.push_str(
        &J::O(vec![
            ("k", s("meta")),
            ("unit", s(unit)),
            ("bodies", i(bodies.len())),
            ("stolen", i(stolen)),
            ("hir_fns", i(n_hir)),
        ])
        .line(),
    );

    let w = |suffix: &str, data: &str| {
        let p = format!("{}/{}.{}", out_dir, unit, suffix);
        let mut f = std::fs::File::create(&p).expect("create fact file");
        f.write_all(data.as_bytes()).expect("write fact file");
    };
    w("items.jsonl", &items_out);
    w("mir.jsonl", &mir_out);
    w("calls.jsonl", &calls_out);
    w("hir.jsonl", &hir_out);
    let nonce = std::env::var("CSFACTS_NONCE").unwrap_or_default();
    w("done", &format!("{} bodies={} stolen={} hir={}\n", nonce, bodies.len(), stolen, n_hir));
}

impl rustc_driver::Callbacks for Cb {
    fn after_expansion<'tcx>(&mut self, _c: &Compiler, tcx: TyCtxt<'tcx>) -> Compilation {
        let out = match std::env::var("CSFACTS_OUT") {
            Ok(o) => o,
            Err(_) => return Compilation::Continue,
        };
        let name = tcx.crate_name(LOCAL_CRATE).to_string();
        if name == "build_script_build" {
            return Compilation::Continue;
        }
        let is_test = tcx.sess.opts.test;
        if is_test {
            return Compilation::Continue;
        }
        let ctype = format!("{:?}", tcx.crate_types().first()).to_lowercase();
        let kind = if ctype.contains("executable") { "bin" } else { "lib" };
        let unit = format!("{}-{}", name, kind);
        extract(tcx, &unit, &out);
        Compilation::Continue
    }
}

fn main() {
    let mut args: Vec<String> = std::env::args().collect();
    // RUSTC_WORKSPACE_WRAPPER: argv[1] is the path of the real rustc
    if args.len() > 1 && (args[1].ends_with("rustc") || args[1].contains("/rustc")) {
        args.remove(1);
    }
    rustc_driver::run_compiler(&args, &mut Cb);
}
