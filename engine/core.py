"""Rule framework: registration, reports, known findings, evidence, exit codes."""
import hashlib
import importlib
import json
import os
import sys
import time
import traceback

from . import facts as F
from . import program as P

VERIF = F.VERIF
RULES = {}  # property -> [(rule_id, text, fn, tier)]


def rule(prop, rid, text, tier="quick"):
    def deco(fn):
        RULES.setdefault(prop, []).append((rid, text, fn, tier))
        return fn
    return deco


class AnchorMissing(Exception):
    pass


class Ctx:
    def __init__(self, prop, tier, facts):
        self.prop = prop
        self.tier = tier
        self.facts = facts
        self.lib = facts.lib
        self.prog = P.Program(facts.lib)
        self._prog_all = None
        self.violations = []   # dicts
        self.instances = []    # evaluated rule instances (dicts)
        self.floors = []
        self.notes = []
        self.obligations = 0
        self.discharged = 0
        self.bodies_touched = set()
        self.cur_rule = None
        self.cur_text = None

    @property
    def prog_all(self):
        """lib + bins"""
        if self._prog_all is None:
            self._prog_all = P.Program([self.facts.lib] + self.facts.bins())
        return self._prog_all

    def key(self, fn_key, instance):
        return "%s.%s|%s|%s" % (self.prop, self.cur_rule, P.named_parent(fn_key), instance)

    # --- recording
    def passed(self, fn_key, instance, sites=(), detail=None):
        self.instances.append({"rule": self.cur_rule, "key": self.key(fn_key, instance), "verdict": "holds",
                               "sites": list(sites), "detail": detail})
        self.obligations += 1
        self.discharged += 1

    def violation(self, fn_key, instance, message, sites=(), detail=None):
        k = self.key(fn_key, instance)
        v = {"rule": self.cur_rule, "rule_text": self.cur_text, "key": k, "message": message,
             "sites": list(sites), "detail": detail, "property": self.prop}
        self.violations.append(v)
        self.instances.append({"rule": self.cur_rule, "key": k, "verdict": "VIOLATED", "sites": list(sites), "detail": message})
        self.obligations += 1

    def floor(self, name, count, minimum, fn_key="<program>"):
        self.floors.append({"rule": self.cur_rule, "name": name, "count": count, "minimum": minimum})
        if count < minimum:
            self.violation(fn_key, "anchor-missing:%s" % name,
                           "rule matched %d site(s) of '%s', fewer than the %d confirmed by reading: the anchor moved or was removed, the rule would pass vacuously"
                           % (count, name, minimum))
            return False
        return True

    def note(self, text):
        self.notes.append("%s: %s" % (self.cur_rule, text))

    # --- helpers
    def body(self, key, prog=None):
        prog = prog or self.prog
        b = prog.body(key)
        if b is not None:
            self.bodies_touched.add(key)
        return b

    def code_body(self, fn_key, prog=None):
        prog = prog or self.prog
        ck = prog.code_key(fn_key)
        return ck, self.body(ck, prog)

    def need_body(self, fn_key, prog=None):
        ck, b = self.code_body(fn_key, prog)
        if b is None:
            raise AnchorMissing(fn_key)
        return ck, b

    def hir(self, fn_key):
        h = self.lib.hir(fn_key)
        if h is None:
            raise AnchorMissing("hir:" + fn_key)
        self.bodies_touched.add("hir:" + fn_key)
        return h


def load_known():
    p = os.path.join(VERIF, "known_findings.json")
    if not os.path.exists(p):
        return {"open": [], "fixed": []}
    return json.load(open(p))


def run_property(prop, tier="quick", replay=None, out=sys.stdout):
    t0 = time.time()
    seed = int(os.environ.get("VERIF_SEED", "0") or 0)
    try:
        facts = F.load()
    except F.InfraError as e:
        print("INFRA-ERROR property=%s %s" % (prop, str(e)[-3000:]), file=out)
        return 3
    importlib.import_module("rules.%s" % prop)
    cx = Ctx(prop, tier, facts)
    rules_run = []
    for (rid, text, fn, rtier) in RULES.get(prop, []):
        if rtier == "thorough" and tier != "thorough":
            continue
        cx.cur_rule = rid
        cx.cur_text = text
        rules_run.append({"id": rid, "text": text})
        try:
            fn(cx)
        except AnchorMissing as e:
            cx.violation("<program>", "anchor-missing:%s" % e.args[0],
                         "anchor %s not found in the analysed program: the rule cannot be evaluated (fail closed)" % e.args[0])
        except Exception:
            print("INFRA-ERROR property=%s rule=%s\n%s" % (prop, rid, traceback.format_exc()), file=out)
            return 3
    known = load_known()
    open_keys = {k["key"]: k for k in known.get("open", []) if k.get("property") == prop}
    unlisted = []
    listed = []
    for v in cx.violations:
        if v["key"] in open_keys:
            listed.append(v)
        else:
            unlisted.append(v)
    rep_dir = os.path.join(VERIF, "reports" if not os.environ.get("CS_NO_EVIDENCE") else ".cache/reports-scratch", prop)
    os.makedirs(rep_dir, exist_ok=True)
    seen_known = set()
    for v in listed:
        if v["key"] in seen_known:
            continue
        seen_known.add(v["key"])
        print("KNOWN-FINDING: property=%s %s :: %s" % (prop, v["key"], open_keys[v["key"]].get("what", v["message"])), file=out)
    rc = 0
    replay_hit = None
    for v in unlisted:
        h = hashlib.sha256(v["key"].encode()).hexdigest()[:16]
        path = os.path.join(rep_dir, h + ".json")
        with open(path, "w") as f:
            json.dump(dict(v, tree_hash=facts.tree_hash, tier=tier), f, indent=1)
        print("%s" % v["message"], file=out)
        for s in v["sites"]:
            print("    at %s" % (s,), file=out)
        print("    rule %s.%s: %s" % (prop, v["rule"], v["rule_text"]), file=out)
        print("    key %s" % v["key"], file=out)
        print("VIOLATION property=%s replay=%s" % (prop, path), file=out)
        rc = 1
    if replay:
        want = json.load(open(replay))["key"]
        hit = [v for v in cx.violations if v["key"] == want]
        print("REPLAY key=%s %s" % (want, "STILL-VIOLATED" if hit else "not reproduced on the current tree"), file=out)
        rc = 1 if hit else 0
    # thorough: the checker checks itself - seeded mutants, silent twins and the kept independent seeded changes of this property
    selftest = None
    if tier == "thorough" and not os.environ.get("CS_NO_EVIDENCE") and not replay:
        sys.path.insert(0, os.path.join(VERIF, "tools"))
        import selftest as ST
        selftest = ST.selftest(prop, verbose=False)
        for r in selftest["mutants"] + selftest["seeded"]:
            print("SELFTEST %s %s %s" % (prop, r["id"], r["status"]), file=out)
        if not selftest["ok"]:
            print("INFRA-ERROR property=%s the checker's self-test failed (a seeded breakage was not reported, or a behaviour-preserving twin alarmed): this is a defect of the check, not of /repo" % prop, file=out)
            rc = 3 if rc == 0 else rc
    # evidence
    nontriv = len({i["key"] for i in cx.instances if i["sites"]})
    samples = []
    seen_rules = {}
    for i in cx.instances:
        if seen_rules.get(i["rule"], 0) < 3:
            seen_rules[i["rule"]] = seen_rules.get(i["rule"], 0) + 1
            samples.append({"key": i["key"], "verdict": i["verdict"], "sites": i["sites"][:6], "detail": i.get("detail")})
    n_calls = 0
    for k in cx.bodies_touched:
        c = cx.prog.calls.get(k) or (cx._prog_all.calls.get(k) if cx._prog_all else None)
        if c:
            n_calls += len(c["calls"])
    ev = {
        "property_id": prop,
        "tier": tier,
        "seed": seed,
        "level": "other",
        "coverage": {
            "explanation": ("static analysis of /repo's working tree (type-checked HIR + MIR facts from a rustc_private driver; "
                            "nothing executed). Rules evaluated: " + "; ".join("%s = %s" % (r["id"], r["text"]) for r in rules_run)),
            "evaluations": len(cx.instances),
            "distinct_nontrivial": nontriv,
            "rule": "one evaluation = one rule instance (rule x anchored site); non-trivial = the instance matched at least one concrete site in the program; distinct by violation key",
            "samples": samples,
            "obligations": cx.obligations,
            "discharged": cx.discharged,
            "checker_cmd": "./check %s --tier %s" % (prop, tier),
            "trusted_base": ["rustc nightly type checker, MIR construction and callee resolution", "csfacts driver serialisation",
                             "engine normalisers (await/? flow, CHA)", "reference tables in rules/%s.py" % prop],
            "rules": rules_run,
            "bodies_analysed": len(cx.bodies_touched),
            "bodies_in_program": len(cx.prog.calls),
            "call_sites_in_analysed_bodies": n_calls,
            "floors": cx.floors,
            "known_findings": sorted(seen_known),
            "notes": cx.notes,
            "tree_hash": facts.tree_hash,
            "units": facts.unit_names,
            "selftest": selftest,
        },
        "assumptions": ["the object store's conditional PUT is atomic", "documented semantics of std / tokio / dashmap / arrow / datafusion calls",
                        "cfg(test) code is not part of the analysed program"],
        "wall_s": round(time.time() - t0, 2),
        "violations": len(unlisted),
    }
    if not os.environ.get("CS_NO_EVIDENCE"):
        os.makedirs(os.path.join(VERIF, "evidence"), exist_ok=True)
        with open(os.path.join(VERIF, "evidence", "%s.json" % prop), "w") as f:
            json.dump(ev, f, indent=1)
    print("[%s] tier=%s rules=%d instances=%d holds=%d violations=%d (known %d) bodies=%d wall=%.1fs tree=%s" % (
        prop, tier, len(rules_run), len(cx.instances), cx.discharged, len(unlisted), len(seen_known),
        len(cx.bodies_touched), time.time() - t0, facts.tree_hash), file=out)
    return rc
