"""Fact extraction orchestration and lazy loading.

The only step that touches the compiler: runs `cargo +nightly check` on /repo's
*working tree* with the csfacts driver as RUSTC_WORKSPACE_WRAPPER and caches the
fact files by a hash of the build inputs.  Nothing is written under /repo and no
code of the repository is executed (build scripts of dependencies run as in any
`cargo check`).
"""
import fcntl
import hashlib
import json
import os
import re
import shutil
import subprocess
import sys
import time

VERIF = os.path.dirname(os.path.dirname(os.path.abspath(__file__)))
REPO = os.environ.get("CS_REPO", "/repo")
CACHE = os.environ.get("CS_CACHE", os.path.join(VERIF, ".cache"))
DRIVER_DIR = os.path.join(VERIF, "driver")
DRIVER_BIN = os.path.join(DRIVER_DIR, "target", "release", "csfacts")
RUSTFLAGS = "-Zmir-opt-level=0 -Awarnings"


class InfraError(Exception):
    pass


def _sha_file(h, path):
    with open(path, "rb") as f:
        while True:
            b = f.read(1 << 20)
            if not b:
                break
            h.update(b)


def tree_hash(repo=REPO):
    h = hashlib.sha256()
    files = []
    for top in ("Cargo.toml", "Cargo.lock", "build.rs"):
        p = os.path.join(repo, top)
        if os.path.exists(p):
            files.append(p)
    for root, dirs, fs in os.walk(os.path.join(repo, "src")):
        dirs.sort()
        for f in sorted(fs):
            files.append(os.path.join(root, f))
    for p in files:
        h.update(os.path.relpath(p, repo).encode())
        h.update(b"\0")
        _sha_file(h, p)
    for p in (os.path.join(DRIVER_DIR, "src", "main.rs"),):
        _sha_file(h, p)
    h.update(RUSTFLAGS.encode())
    return h.hexdigest()[:20]


def _sysroot():
    return subprocess.check_output(["rustc", "+nightly", "--print", "sysroot"], text=True).strip()


def build_driver(log=sys.stderr):
    src = os.path.join(DRIVER_DIR, "src", "main.rs")
    if os.path.exists(DRIVER_BIN) and os.path.getmtime(DRIVER_BIN) >= os.path.getmtime(src):
        return
    env = dict(os.environ, CARGO_NET_OFFLINE="true")
    r = subprocess.run(["cargo", "build", "--offline", "--release"], cwd=DRIVER_DIR, env=env,
                       stdout=subprocess.PIPE, stderr=subprocess.STDOUT, text=True)
    if r.returncode != 0 or not os.path.exists(DRIVER_BIN):
        raise InfraError("driver build failed:\n" + r.stdout[-4000:])


def _index(path):
    """byte offsets of each line keyed by its "def" """
    idx = {}
    rx = re.compile(rb'"def":"((?:[^"\\]|\\.)*)"')
    with open(path, "rb") as f:
        off = 0
        for line in f:
            m = rx.search(line, 0, 4000)
            if m:
                idx[json.loads(b'"' + m.group(1) + b'"')] = (off, len(line))
            off += len(line)
    return idx


def ensure_facts(repo=REPO, bins=True, log=sys.stderr):
    """Returns the directory holding fact files for repo's current working tree."""
    os.makedirs(os.path.join(CACHE, "facts"), exist_ok=True)
    th = tree_hash(repo)
    out = os.path.join(CACHE, "facts", th)
    okfile = os.path.join(out, "OK")
    if os.path.exists(okfile):
        os.utime(out, None)
        return out
    lock = open(os.path.join(CACHE, "extract.lock"), "w")
    fcntl.flock(lock, fcntl.LOCK_EX)
    try:
        if os.path.exists(okfile):
            return out
        build_driver(log)
        if os.path.exists(out):
            shutil.rmtree(out)
        os.makedirs(out)
        target = os.path.join(CACHE, "target")
        fp = os.path.join(target, "debug", ".fingerprint")
        if os.path.isdir(fp):
            for d in os.listdir(fp):
                if d.startswith("cardinalsin-"):
                    shutil.rmtree(os.path.join(fp, d), ignore_errors=True)
        nonce = "%s-%d" % (th, time.time_ns())
        env = dict(os.environ)
        env.update({
            "LD_LIBRARY_PATH": _sysroot() + "/lib" + (":" + env["LD_LIBRARY_PATH"] if env.get("LD_LIBRARY_PATH") else ""),
            "RUSTFLAGS": RUSTFLAGS,
            "CARGO_INCREMENTAL": "0",
            "RUSTC_WORKSPACE_WRAPPER": DRIVER_BIN,
            "CARGO_TARGET_DIR": target,
            "CARGO_NET_OFFLINE": "true",
            "CSFACTS_OUT": out,
            "CSFACTS_NONCE": nonce,
        })
        env.pop("CARGO_ENCODED_RUSTFLAGS", None)
        cmd = ["cargo", "+nightly", "check", "--offline", "--locked", "--lib"]
        if bins:
            cmd.append("--bins")
        t0 = time.time()
        print("[facts] extracting (%s) ..." % th, file=log)
        r = subprocess.run(cmd, cwd=repo, env=env, stdout=subprocess.PIPE, stderr=subprocess.STDOUT, text=True)
        if r.returncode != 0:
            shutil.rmtree(out, ignore_errors=True)
            raise InfraError("cargo check failed (tree does not compile?):\n" + r.stdout[-6000:])
        done = os.path.join(out, "cardinalsin-lib.done")
        if not os.path.exists(done) or nonce not in open(done).read():
            shutil.rmtree(out, ignore_errors=True)
            raise InfraError("driver did not run for the lib unit (stale cargo cache?)\n" + r.stdout[-2000:])
        units = sorted(f[:-5] for f in os.listdir(out) if f.endswith(".done"))
        for u in units:
            for kind in ("mir", "hir", "calls"):
                idx = _index(os.path.join(out, "%s.%s.jsonl" % (u, kind)))
                with open(os.path.join(out, "%s.%s.idx" % (u, kind)), "w") as f:
                    json.dump(idx, f)
        with open(okfile, "w") as f:
            json.dump({"tree_hash": th, "units": units, "extract_s": round(time.time() - t0, 1)}, f)
        print("[facts] done in %.1fs: %s" % (time.time() - t0, ", ".join(units)), file=log)
        _gc(os.path.join(CACHE, "facts"), keep=120)
        return out
    finally:
        fcntl.flock(lock, fcntl.LOCK_UN)
        lock.close()


def _gc(d, keep):
    ents = [os.path.join(d, x) for x in os.listdir(d)]
    ents = [e for e in ents if os.path.isdir(e)]
    ents.sort(key=os.path.getmtime, reverse=True)
    for e in ents[keep:]:
        shutil.rmtree(e, ignore_errors=True)


class Unit:
    def __init__(self, d, name):
        self.dir = d
        self.name = name
        self._f = {}
        self._idx = {}
        self._cache = {}
        self.items = {}
        self.adts = {}
        self.consts = {}
        self.meta = {}
        for line in open(os.path.join(d, name + ".items.jsonl")):
            j = json.loads(line)
            k = j["k"]
            if k == "item":
                self.items[j["def"]] = j
            elif k == "adt":
                self.adts[j["def"]] = j
            elif k == "const":
                self.consts[j["def"]] = j
            elif k == "meta":
                self.meta = j
        self.calls = {}
        for line in open(os.path.join(d, name + ".calls.jsonl")):
            j = json.loads(line)
            self.calls[j["def"]] = j

    def _load(self, kind, key):
        ck = (kind, key)
        if ck in self._cache:
            return self._cache[ck]
        if kind not in self._idx:
            self._idx[kind] = json.load(open(os.path.join(self.dir, "%s.%s.idx" % (self.name, kind))))
            self._f[kind] = open(os.path.join(self.dir, "%s.%s.jsonl" % (self.name, kind)), "rb")
        ent = self._idx[kind].get(key)
        if ent is None:
            return None
        f = self._f[kind]
        f.seek(ent[0])
        j = json.loads(f.read(ent[1]))
        self._cache[ck] = j
        return j

    def mir(self, key):
        return self._load("mir", key)

    def hir(self, key):
        return self._load("hir", key)

    def mir_keys(self):
        if "mir" not in self._idx:
            self._load("mir", "")
        return list(self._idx["mir"].keys())

    def hir_keys(self):
        if "hir" not in self._idx:
            self._load("hir", "")
        return list(self._idx["hir"].keys())


class Facts:
    def __init__(self, d):
        self.dir = d
        ok = json.load(open(os.path.join(d, "OK")))
        self.tree_hash = ok["tree_hash"]
        self.unit_names = ok["units"]
        self._units = {}

    def unit(self, name):
        if name not in self._units:
            self._units[name] = Unit(self.dir, name)
        return self._units[name]

    @property
    def lib(self):
        return self.unit("cardinalsin-lib")

    def bins(self):
        return [self.unit(u) for u in self.unit_names if u.endswith("-bin")]


def load(repo=REPO, bins=True):
    return Facts(ensure_facts(repo, bins=bins))
