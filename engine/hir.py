"""Typed-HIR helpers: tree walking, pattern tables, comparison-formula extraction and the
ordering abstraction (A10): evaluation of a formula over every weak ordering of its symbols."""
import itertools


def walk(n):
    """pre-order over every dict node"""
    st = [n]
    while st:
        x = st.pop()
        if isinstance(x, dict):
            yield x
            for v in reversed(list(x.values())):
                if isinstance(v, (dict, list)):
                    st.append(v)
        elif isinstance(x, list):
            for v in reversed(x):
                if isinstance(v, (dict, list)):
                    st.append(v)


def find(n, pred):
    return [x for x in walk(n) if pred(x)]


def strip(e):
    """remove wrappers that do not change the value: blocks with only a tail, refs, derefs, casts of refs, DropTemps"""
    while isinstance(e, dict):
        k = e.get("k")
        if k == "block" and not e["stmts"] and e.get("tail") is not None:
            e = e["tail"]
        elif k == "ref":
            e = e["a"]
        elif k == "un" and e["op"] == "*":
            e = e["a"]
        elif k == "mcall" and e["name"] in ("clone", "as_ref", "as_str", "as_deref", "to_owned", "borrow", "deref", "as_slice", "to_string", "into", "copied", "cloned") and not e["args"]:
            e = e["recv"]
        else:
            break
    return e


def tail(e):
    """the value expression of a block (follows nested blocks)"""
    while isinstance(e, dict) and e.get("k") == "block":
        if e.get("tail") is None:
            return None
        e = e["tail"]
    return e


def path_of(e):
    if isinstance(e, dict) and e.get("k") == "def":
        return e["path"]
    return None


def is_local(e, name=None):
    return isinstance(e, dict) and e.get("k") == "local" and (name is None or e["name"] == name)


def term(e):
    """canonical string of a place-like expression: locals, fields, no-arg getters; None if not place-like"""
    e = strip(e)
    if not isinstance(e, dict):
        return None
    k = e.get("k")
    if k == "local":
        return e["name"]
    if k == "field":
        b = term(e["e"])
        return None if b is None else "%s.%s" % (b, e["name"])
    if k == "def":
        return e["path"]
    if k == "lit":
        return "lit:%s" % (e["v"],)
    if k == "mcall" and not e["args"]:
        b = term(e["recv"])
        return None if b is None else "%s.%s()" % (b, e["name"])
    if k == "cast":
        return term(e["a"])
    if k == "index":
        b = term(e["e"])
        i = term(e["i"])
        return None if b is None or i is None else "%s[%s]" % (b, i)
    if k == "un" and e["op"] == "-":
        b = term(e["a"])
        return None if b is None else "-%s" % b
    return None


# ---------------------------------------------------------------- patterns

def pat_alts(p):
    """expand or-patterns: list of alternatives without `por` nodes"""
    k = p.get("k")
    if k == "por":
        out = []
        for a in p["alts"]:
            out.extend(pat_alts(a))
        return out
    if k in ("ptuplestruct", "ptuple", "pslice"):
        subs = [pat_alts(s) for s in p["subs"]]
        return [dict(p, subs=list(c)) for c in itertools.product(*subs)] if subs else [p]
    if k == "pstruct":
        subs = [pat_alts(f[1]) for f in p["fields"]]
        names = [f[0] for f in p["fields"]]
        return [dict(p, fields=[[n, s] for n, s in zip(names, c)]) for c in itertools.product(*subs)] if subs else [p]
    if k == "pref" or (k == "pbind" and p.get("sub")):
        return [dict(p, sub=s) for s in pat_alts(p["sub"])]
    return [p]


def pat_path(p):
    if p.get("k") in ("ptuplestruct", "pstruct", "ppath"):
        pp = p.get("path") or {}
        return pp.get("path")
    return None


def pat_variant_chain(p):
    """variant paths from the outside in, following single sub-patterns: Err(E::AlreadyExists{..}) ->
    [Result::Err, E::AlreadyExists]"""
    out = []
    while isinstance(p, dict):
        k = p.get("k")
        if k == "pref":
            p = p["sub"]
            continue
        if k == "pbind" and p.get("sub"):
            p = p["sub"]
            continue
        pp = pat_path(p)
        if pp is None:
            break
        out.append(pp)
        if k == "ptuplestruct" and len(p["subs"]) == 1:
            p = p["subs"][0]
        else:
            break
    return out


def pat_bindings(p):
    return [x["name"] for x in walk(p) if x.get("k") == "pbind"]


def ctor_call(e):
    """(path, args) if e is a call of a resolved constructor / fn path"""
    if isinstance(e, dict) and e.get("k") == "call" and path_of(e["f"]):
        return path_of(e["f"]), e["args"]
    return None, None


def result_class(e):
    """classify the value an arm / block evaluates (or returns) to:
    ('Ok', None) | ('Err', <error ctor path or None>) | ('Other', None)"""
    e = tail(e) if isinstance(e, dict) and e.get("k") == "block" and e.get("tail") is not None else e
    if isinstance(e, dict) and e.get("k") == "block":
        # no tail: look for a trailing `return X`
        if e["stmts"]:
            last = e["stmts"][-1]
            if last.get("k") == "ret":
                return result_class(last["e"])
        return ("Other", None)
    if not isinstance(e, dict):
        return ("Other", None)
    if e.get("k") == "ret":
        return result_class(e["e"])
    p, args = ctor_call(e)
    if p is None:
        return ("Other", None)
    last = p.rsplit("::", 1)[-1]
    if last in ("Ok", "Some"):
        return ("Ok", None)
    if last == "Err":
        inner = args[0] if args else None
        ip, _ = ctor_call(inner)
        if ip is None:
            ip = path_of(inner)
        return ("Err", ip)
    return ("Other", None)


# ---------------------------------------------------------------- comparison formulas (A10)

CMP = {"<", "<=", ">", ">=", "==", "!="}
FLIP = {"<": ">", "<=": ">=", ">": "<", ">=": "<=", "==": "==", "!=": "!="}
NEG = {"<": ">=", "<=": ">", ">": "<=", ">=": "<", "==": "!=", "!=": "=="}


class NotFormula(Exception):
    pass


def formula(e, sym=term, env=None):
    """boolean formula over comparisons of terms:
    ('cmp', op, a, b) | ('and', f, g) | ('or', f, g) | ('not', f) | ('const', bool)
    `sym` maps an operand expression to a symbol (string) or raises / returns None.
    `env`: dict local-name -> formula/term for inlining `let` bound booleans."""
    e0 = e
    e = strip(e) if isinstance(e, dict) and e.get("k") in ("block", "ref") else e
    if not isinstance(e, dict):
        raise NotFormula(e0)
    k = e.get("k")
    if k == "block":
        # let-bound sub-formulas
        env = dict(env or {})
        for st in e["stmts"]:
            if st.get("k") == "slet" and st["pat"].get("k") == "pbind" and st.get("init") is not None:
                try:
                    env[st["pat"]["name"]] = formula(st["init"], sym, env)
                except NotFormula:
                    pass
            else:
                raise NotFormula(st)
        return formula(e["tail"], sym, env)
    if k == "bin":
        op = e["op"]
        if op == "&&":
            return ("and", formula(e["a"], sym, env), formula(e["b"], sym, env))
        if op == "||":
            return ("or", formula(e["a"], sym, env), formula(e["b"], sym, env))
        if op in CMP:
            a, b = sym(e["a"]), sym(e["b"])
            if a is None or b is None:
                raise NotFormula(e)
            return ("cmp", op, a, b)
        raise NotFormula(e)
    if k == "un" and e["op"] == "!":
        return ("not", formula(e["a"], sym, env))
    if k == "lit" and e["t"] == "bool":
        return ("const", bool(e["v"]))
    if k == "local" and env and e["name"] in env:
        return env[e["name"]]
    if k == "mcall" and e["name"] in ("lt", "le", "gt", "ge", "eq", "ne") and len(e["args"]) == 1:
        op = {"lt": "<", "le": "<=", "gt": ">", "ge": ">=", "eq": "==", "ne": "!="}[e["name"]]
        a, b = sym(e["recv"]), sym(e["args"][0])
        if a is None or b is None:
            raise NotFormula(e)
        return ("cmp", op, a, b)
    if k == "if" and e.get("els") is not None:
        c = formula(e["cond"], sym, env)
        t = formula(e["then"], sym, env)
        f = formula(e["els"], sym, env)
        return ("or", ("and", c, t), ("and", ("not", c), f))
    raise NotFormula(e)


def symbols(f, acc=None):
    acc = acc if acc is not None else []
    if f[0] == "cmp":
        for s in (f[2], f[3]):
            if s not in acc:
                acc.append(s)
    elif f[0] in ("and", "or"):
        symbols(f[1], acc)
        symbols(f[2], acc)
    elif f[0] == "not":
        symbols(f[1], acc)
    return acc


def ev(f, rank):
    t = f[0]
    if t == "cmp":
        a, b = rank[f[2]], rank[f[3]]
        op = f[1]
        return {"<": a < b, "<=": a <= b, ">": a > b, ">=": a >= b, "==": a == b, "!=": a != b}[op]
    if t == "and":
        return ev(f[1], rank) and ev(f[2], rank)
    if t == "or":
        return ev(f[1], rank) or ev(f[2], rank)
    if t == "not":
        return not ev(f[1], rank)
    if t == "const":
        return f[1]
    raise ValueError(f)


def weak_orderings(syms):
    """every weak ordering (ordered set partition) of syms, as dict sym -> rank"""
    syms = list(syms)
    n = len(syms)

    def rec(i, ranks, nblocks):
        if i == n:
            # only surjective assignments onto 0..nblocks-1 were generated
            yield dict(zip(syms, ranks))
            return
        # place sym i into an existing block, or a new block inserted at any position
        for r in range(nblocks):
            yield from rec(i + 1, ranks + [r], nblocks)
        for pos in range(nblocks + 1):
            shifted = [x + 1 if x >= pos else x for x in ranks]
            yield from rec(i + 1, shifted + [pos], nblocks + 1)

    if n == 0:
        yield {}
        return
    yield from rec(1, [0], 1)


def check_orderings(syms, pre, claim):
    """evaluate `claim(rank)` on every weak ordering of syms satisfying pre(rank).
    returns (n_total, n_pre, counterexample or None)"""
    total = npre = 0
    for r in weak_orderings(syms):
        total += 1
        if pre is not None and not pre(r):
            continue
        npre += 1
        if not claim(r):
            return total, npre, r
    return total, npre, None


def show_ordering(rank):
    inv = {}
    for s, r in rank.items():
        inv.setdefault(r, []).append(s)
    return " < ".join(" = ".join(sorted(inv[r])) for r in sorted(inv))


def fstr(f):
    t = f[0]
    if t == "cmp":
        return "%s %s %s" % (f[2], f[1], f[3])
    if t in ("and", "or"):
        return "(%s %s %s)" % (fstr(f[1]), "&&" if t == "and" else "||", fstr(f[2]))
    if t == "not":
        return "!%s" % fstr(f[1])
    return str(f[1]).lower()


# ---------------------------------------------------------------- linear arithmetic

class NotLinear(Exception):
    pass


def linear(e, env=None):
    """(coeffs: {symbol: int}, const: int) of an integer expression built from + - * literals, casts and
    let-bound locals (env: name -> (coeffs, const)); symbols are `term` strings"""
    env = env or {}
    e = strip(e)
    if not isinstance(e, dict):
        raise NotLinear(e)
    k = e.get("k")
    if k == "lit" and e.get("t") == "int":
        return ({}, int(e["v"]))
    if k == "cast":
        return linear(e["a"], env)
    if k == "block":
        env2 = dict(env)
        for st in e["stmts"]:
            if st.get("k") == "slet" and st["pat"].get("k") == "pbind" and st.get("init") is not None:
                try:
                    env2[st["pat"]["name"]] = linear(st["init"], env2)
                except NotLinear:
                    env2.pop(st["pat"]["name"], None)
            elif st.get("k") == "macro":
                continue
            else:
                raise NotLinear(st)
        if e.get("tail") is None:
            raise NotLinear(e)
        return linear(e["tail"], env2)
    if k == "local" and e["name"] in env:
        return env[e["name"]]
    if k == "un" and e["op"] == "-":
        c, k0 = linear(e["a"], env)
        return ({s: -v for s, v in c.items()}, -k0)
    if k == "bin" and e["op"] in ("+", "-"):
        ca, ka = linear(e["a"], env)
        cb, kb = linear(e["b"], env)
        sg = 1 if e["op"] == "+" else -1
        out = dict(ca)
        for s, v in cb.items():
            out[s] = out.get(s, 0) + sg * v
        return ({s: v for s, v in out.items() if v != 0}, ka + sg * kb)
    if k == "bin" and e["op"] == "*":
        ca, ka = linear(e["a"], env)
        cb, kb = linear(e["b"], env)
        if not ca:
            return ({s: v * ka for s, v in cb.items()}, ka * kb)
        if not cb:
            return ({s: v * kb for s, v in ca.items()}, ka * kb)
        raise NotLinear(e)
    t = term(e)
    if t is None:
        raise NotLinear(e)
    return ({t: 1}, 0)
