"""MIR-level analyses: CFG, edge-set dominance, result flow / success edges,
exit classification, provenance, guard spans.  Pure functions over the JSON
bodies written by the driver (pre-coroutine-transform MIR, mir-opt-level=0)."""
import re
from collections import defaultdict, deque

# ----------------------------------------------------------------- printing


def pl_str(pl, body=None):
    s = "_%d" % pl["l"]
    if body is not None:
        n = body.names.get(pl["l"])
        if n:
            s += "{%s}" % n
    for p in pl.get("p") or []:
        if p == "*":
            s = "(*%s)" % s
        elif p == "cast":
            s = "(%s as _)" % s
        elif "f" in p:
            s += ".%s" % (p.get("n") or p["f"])
        elif "dc" in p:
            s = "(%s as %s)" % (s, p["dc"])
        elif "ix" in p:
            s += "[_%d]" % p["ix"]
        elif "cix" in p:
            s += "[%d]" % p["cix"]
        elif "sub" in p:
            s += "[%s..%s]" % tuple(p["sub"])
    return s


def op_str(o, body=None):
    k = o["k"]
    if k in ("copy", "move"):
        return ("move " if k == "move" else "") + pl_str(o["pl"], body)
    if k == "const":
        if "fn" in o:
            return "fn:" + o["fn"]
        if "int" in o:
            return "const %s" % o["int"]
        return "const %s" % o.get("val", o.get("closure", "?"))
    return o.get("dbg", "?")


def rv_str(rv, body=None):
    k = rv["k"]
    if k == "use":
        return op_str(rv["o"], body)
    if k == "ref":
        return ("&mut " if rv.get("mut") else "&") + pl_str(rv["pl"], body)
    if k == "rawptr":
        return "&raw " + pl_str(rv["pl"], body)
    if k == "bin":
        return "%s(%s, %s)" % (rv["op"], op_str(rv["a"], body), op_str(rv["b"], body))
    if k == "un":
        return "%s(%s)" % (rv["op"], op_str(rv["a"], body))
    if k == "cast":
        return "%s as %s" % (op_str(rv["o"], body), rv["ty"][:40])
    if k == "discr":
        return "discriminant(%s)" % pl_str(rv["pl"], body)
    if k == "agg":
        ak = rv["ak"]
        ops = ", ".join(op_str(o, body) for o in rv["ops"])
        if ak == "adt":
            return "%s::%s{%s}" % (rv["adt"], rv["variant"], ops)
        if ak in ("closure", "coroutine"):
            return "%s<%s>{%s}" % (ak, rv["def"], ops)
        return "%s(%s)" % (ak, ops)
    if k == "setdiscr":
        return "setdiscr %s" % rv["v"]
    return rv.get("dbg", k)


def dump(body):
    out = ["fn %s  kind=%s args=%d  %s" % (body.key, body.j["kind"], body.j["args"], body.j["span"])]
    for i, l in enumerate(body.locals):
        n = body.names.get(i)
        out.append("  let _%d%s: %s" % (i, "{%s}" % n if n else "", l["ty"][:110]))
    for bi, b in enumerate(body.blocks):
        out.append(" bb%d%s:" % (bi, " (cleanup)" if b.get("cleanup") else ""))
        for st in b["stmts"]:
            out.append("    %s = %s    // %s" % (pl_str(st["lhs"], body), rv_str(st["rv"], body), st["sp"]))
        t = b["term"]
        k = t["k"]
        if k == "call":
            s = "%s = %s(%s) -> %s" % (pl_str(t["dest"], body), t.get("resolved") or t["callee"],
                                       ", ".join(op_str(a, body) for a in t["args"]), t.get("target"))
        elif k == "switch":
            names = t.get("variants") or t["values"]
            s = "switch %s [%s, otherwise: %s]" % (op_str(t["discr"], body),
                                                   ", ".join("%s: %s" % (n, tg) for n, tg in zip(names, t["targets"])), t["otherwise"])
        elif k == "drop":
            s = "drop(%s) -> %s" % (pl_str(t["pl"], body), t["target"])
        elif k == "assert":
            s = "assert(%s == %s, %s, %s) -> %s" % (op_str(t["cond"], body), t["expected"], t["akind"],
                                                     ", ".join(op_str(a, body) for a in t["aops"]), t["target"])
        elif k in ("goto", "yield"):
            s = "%s -> %s" % (k, t["target"])
        else:
            s = k
        out.append("    %s    // %s%s" % (s, t["sp"], " [%s]" % (t["expn"].get("d") or t["expn"].get("m")) if t.get("expn") else ""))
    return "\n".join(out)


# ----------------------------------------------------------------- body

T = "T"  # statement index of a block's terminator


class Body:
    def __init__(self, j):
        self.j = j
        self.key = j["def"]
        self.blocks = j["blocks"]
        self.locals = j["locals"]
        self.nargs = j["args"]
        self.names = {}
        self.upvars = {}  # field index of _1 -> name (closures / coroutines)
        for d in j["dbg"]:
            pl = d["pl"]
            p = pl.get("p") or []
            if not p:
                self.names.setdefault(pl["l"], d["name"])
            elif pl["l"] == 1:
                fs = [x for x in p if isinstance(x, dict) and "f" in x]
                if fs:
                    self.upvars.setdefault(fs[0]["f"], d["name"])
        self._succ = None
        self._pred = None
        self._defs = None
        self._uses = None

    # normal (non-unwind) successors
    def succs(self, b):
        if self._succ is None:
            self._succ = []
            for blk in self.blocks:
                t = blk["term"]
                k = t["k"]
                if k in ("goto", "drop", "assert", "yield"):
                    s = [t["target"]]
                elif k == "call":
                    s = [t["target"]] if t.get("target") is not None else []
                elif k == "switch":
                    s = list(t["targets"]) + [t["otherwise"]]
                    only = self._const_switch_target(blk, t)
                    if only is not None:
                        s = [only]
                else:
                    s = []
                self._succ.append(s)
            self._thread_jumps()
        return self._succ[b]

    def _thread_jumps(self):
        """P: `L = const c; goto S`, S: `switch L` (S does not assign L): P's real successor is S's target for c.
        mir-opt-level=0 lowers matches!, && and || into exactly this diamond; without threading the false
        side of a test 'reaches' the code guarded by its true side."""
        for pi, blk in enumerate(self.blocks):
            if blk["term"]["k"] != "goto" or len(self._succ[pi]) != 1:
                continue
            si = self._succ[pi][0]
            sb = self.blocks[si]
            st = sb["term"]
            if st["k"] != "switch" or st["discr"]["k"] not in ("copy", "move") or st["discr"]["pl"].get("p"):
                continue
            L = st["discr"]["pl"]["l"]
            if any(x["lhs"]["l"] == L for x in sb["stmts"]):
                continue
            c = None
            for x in blk["stmts"]:
                if x["lhs"]["l"] == L:
                    rv = x["rv"]
                    if not x["lhs"].get("p") and rv["k"] == "use" and rv["o"]["k"] == "const" and "int" in rv["o"]:
                        c = rv["o"]["int"]
                    else:
                        c = None
            if c is None:
                continue
            tgt = st["otherwise"]
            for v, tg in zip(st["values"], st["targets"]):
                if v == c:
                    tgt = tg
            self._succ[pi] = [tgt]

    def _const_switch_target(self, blk, t):
        """switch on discriminant(_x) where _x's only definition is an aggregate of a known variant and
        _x is never mutably borrowed: only that variant's edge is feasible (async_trait's
        `if let Some(__ret) = None::<T>` type hint is the instance that matters)"""
        if not t.get("variants"):
            return None
        dl = _op_local(t["discr"])
        src = None
        for st in reversed(blk["stmts"]):
            if st["lhs"]["l"] == dl and not st["lhs"].get("p"):
                if st["rv"]["k"] == "discr" and not st["rv"]["pl"].get("p"):
                    src = st["rv"]["pl"]["l"]
                break
        if src is None or src <= self.nargs:
            return None
        variant = None
        ndefs = 0
        for b2 in self.blocks:
            for st in b2["stmts"]:
                if st["lhs"]["l"] == src:
                    ndefs += 1
                    rv = st["rv"]
                    if not st["lhs"].get("p") and rv["k"] == "agg" and rv.get("ak") == "adt":
                        variant = rv["variant"]
                    else:
                        return None
                rv = st["rv"]
                if rv["k"] in ("ref", "rawptr") and rv["pl"]["l"] == src and (rv.get("mut") or rv["k"] == "rawptr"):
                    return None
            tt = b2["term"]
            if tt["k"] == "call" and tt["dest"]["l"] == src:
                return None
        if ndefs != 1 or variant is None:
            return None
        for n, tg in zip(t["variants"], t["targets"]):
            if n == variant:
                return tg
        return t["otherwise"]

    def preds(self, b):
        if self._pred is None:
            self._pred = [[] for _ in self.blocks]
            for i in range(len(self.blocks)):
                for s in self.succs(i):
                    self._pred[s].append(i)
        return self._pred[b]

    def term(self, b):
        return self.blocks[b]["term"]

    def is_cleanup(self, b):
        return bool(self.blocks[b].get("cleanup"))

    def local_ty(self, l):
        return self.locals[l]["ty"]

    def name_of(self, l):
        return self.names.get(l)

    def calls(self):
        """[(block, term)] of every call terminator in non-cleanup blocks"""
        return [(i, b["term"]) for i, b in enumerate(self.blocks) if b["term"]["k"] == "call" and not b.get("cleanup")]

    def sp(self, b, i=T):
        if i == T:
            return self.blocks[b]["term"]["sp"]
        return self.blocks[b]["stmts"][i]["sp"]

    # definitions of each local: local -> [(block, idx, kind, payload)]
    #   kind 'assign' payload = stmt ; kind 'call' payload = term ; 'yield' ; 'arg'
    def defs(self):
        if self._defs is None:
            d = defaultdict(list)
            for bi, b in enumerate(self.blocks):
                if b.get("cleanup"):
                    continue
                for si, st in enumerate(b["stmts"]):
                    d[st["lhs"]["l"]].append((bi, si, "assign", st))
                t = b["term"]
                if t["k"] == "call":
                    d[t["dest"]["l"]].append((bi, T, "call", t))
                elif t["k"] == "yield":
                    d[t["resume_arg"]["l"]].append((bi, T, "yield", t))
            self._defs = d
        return self._defs

    def reachable(self, start=0, removed_edges=(), removed_blocks=()):
        """blocks reachable from `start` over normal edges, not traversing removed edges / blocks"""
        rem_e = set(removed_edges)
        rem_b = set(removed_blocks)
        if start in rem_b:
            return set()
        seen = {start}
        dq = deque([start])
        while dq:
            b = dq.popleft()
            for s in self.succs(b):
                if (b, s) in rem_e or s in rem_b or s in seen:
                    continue
                seen.add(s)
                dq.append(s)
        return seen

    def reaches(self, src, dst, removed_edges=(), removed_blocks=()):
        """is there a non-empty path src -> dst (block level)"""
        rem_e = set(removed_edges)
        rem_b = set(removed_blocks)
        seen = set()
        dq = deque()
        for s in self.succs(src):
            if (src, s) not in rem_e and s not in rem_b:
                if s not in seen:
                    seen.add(s)
                    dq.append(s)
        while dq:
            b = dq.popleft()
            if b == dst:
                return True
            for s in self.succs(b):
                if (b, s) in rem_e or s in rem_b or s in seen:
                    continue
                seen.add(s)
                dq.append(s)
        return dst in seen

    def reach_set(self, b):
        """blocks reachable from b by a non-empty path (cached)"""
        c = self.__dict__.setdefault("_rs", {})
        if b not in c:
            seen = set()
            dq = deque(self.succs(b))
            seen.update(dq)
            while dq:
                x = dq.popleft()
                for s in self.succs(x):
                    if s not in seen:
                        seen.add(s)
                        dq.append(s)
            c[b] = seen
        return c[b]

    def def_reaches(self, dsite, usite):
        """can the definition at dsite=(block, idx) execute before the use at usite (ignoring kills)"""
        (db, di), (ub, ui) = dsite, usite
        if db == ub:
            before = (di != T) and (ui == T or di < ui)
            if before:
                return True
            return db in self.reach_set(db)
        return ub in self.reach_set(db)

    def dominated_by_edges(self, block, edges):
        """every path entry -> block traverses one of `edges`"""
        return block not in self.reachable(0, removed_edges=edges)

    def dominated_by_blocks(self, block, blocks):
        """every path entry -> block passes (the end of) one of `blocks` first"""
        if block in blocks:
            # a block trivially passes itself only at its end; treat as not dominated
            blocks = set(blocks) - {block}
        return block not in self.reachable(0, removed_blocks=blocks)

    def path(self, start, goal, removed_edges=(), removed_blocks=()):
        """one shortest block path start -> goal avoiding removed edges/blocks, or None"""
        rem_e = set(removed_edges)
        rem_b = set(removed_blocks)
        prev = {start: None}
        dq = deque([start])
        while dq:
            b = dq.popleft()
            if b == goal:
                out = []
                while b is not None:
                    out.append(b)
                    b = prev[b]
                return out[::-1]
            for s in self.succs(b):
                if (b, s) in rem_e or s in rem_b or s in prev:
                    continue
                prev[s] = b
                dq.append(s)
        return None


# ----------------------------------------------------------------- result flow

# callees that hand their (first) argument's fallibility on to their result
PASS_THROUGH = {
    "std::future::IntoFuture::into_future",
    "std::pin::Pin::<Ptr>::new_unchecked",
    "std::pin::Pin::<Ptr>::new",
    "futures::Future::poll",
    "std::future::Future::poll",
    "std::ops::Try::branch",
    "std::result::Result::<T, E>::map_err",
    "std::result::Result::<T, E>::map",
    "std::option::Option::<T>::ok_or_else",
    "std::option::Option::<T>::ok_or",
    "std::option::Option::<T>::map",
    "std::result::Result::<T, E>::ok",
    "std::result::Result::<T, E>::as_ref",
    "std::option::Option::<T>::as_ref",
    "std::convert::Into::into",
    "std::convert::From::from",
    "std::boxed::Box::<T>::pin",
    "std::pin::Pin::<Ptr>::as_mut",
}
FAIL_VARIANTS = {"Err", "Break", "None"}
OK_VARIANTS = {"Ok", "Continue", "Some"}
TRANSPARENT_VARIANTS = {"Ready"}
BOOL_PRED = {
    "std::result::Result::<T, E>::is_ok": True,
    "std::result::Result::<T, E>::is_err": False,
    "std::option::Option::<T>::is_some": True,
    "std::option::Option::<T>::is_none": False,
}


def _pl_has_payload_dc(pl):
    for p in pl.get("p") or []:
        if isinstance(p, dict) and "dc" in p and p["dc"] not in TRANSPARENT_VARIANTS:
            return True
    return False


def _op_local(o):
    if o["k"] in ("copy", "move"):
        return o["pl"]["l"]
    return None


def _op_place(o):
    if o["k"] in ("copy", "move"):
        return o["pl"]
    return None


def result_locals(body, call_block, extra_pass=()):
    """locals that (may) hold the not-yet-discriminated result of the call ending `call_block`,
    and boolean locals that test it: {local: polarity}"""
    t = body.term(call_block)
    R = {t["dest"]["l"]}
    bools = {}
    changed = True
    passes = PASS_THROUGH | set(extra_pass)
    while changed:
        changed = False
        for bi, b in enumerate(body.blocks):
            if b.get("cleanup"):
                continue
            for st in b["stmts"]:
                lhs = st["lhs"]
                if lhs.get("p"):
                    continue
                rv = st["rv"]
                src = None
                if rv["k"] == "use":
                    src = _op_place(rv["o"])
                elif rv["k"] in ("ref", "rawptr"):
                    src = rv["pl"]
                elif rv["k"] == "cast":
                    src = _op_place(rv["o"])
                if src is not None and src["l"] in R and not _pl_has_payload_dc(src):
                    if lhs["l"] not in R:
                        R.add(lhs["l"])
                        changed = True
            tt = b["term"]
            if tt["k"] == "call":
                cal = tt["callee"]
                if cal in passes and tt["args"]:
                    a0 = _op_place(tt["args"][0])
                    if a0 is not None and a0["l"] in R and not _pl_has_payload_dc(a0):
                        d = tt["dest"]["l"]
                        if d not in R and not tt["dest"].get("p"):
                            R.add(d)
                            changed = True
                elif cal in BOOL_PRED and tt["args"]:
                    a0 = _op_place(tt["args"][0])
                    if a0 is not None and a0["l"] in R:
                        bools[tt["dest"]["l"]] = BOOL_PRED[cal]
            elif tt["k"] == "yield":
                pass
    # bools flow through copies / Not
    changed = True
    while changed:
        changed = False
        for b in body.blocks:
            if b.get("cleanup"):
                continue
            for st in b["stmts"]:
                lhs = st["lhs"]
                if lhs.get("p") or lhs["l"] in bools:
                    continue
                rv = st["rv"]
                if rv["k"] == "use":
                    l = _op_local(rv["o"])
                    if l in bools and not (rv["o"]["pl"].get("p")):
                        bools[lhs["l"]] = bools[l]
                        changed = True
                elif rv["k"] == "un" and rv["op"] == "Not":
                    l = _op_local(rv["a"])
                    if l in bools:
                        bools[lhs["l"]] = not bools[l]
                        changed = True
    return R, bools


def outcome_edges(body, call_block, extra_pass=()):
    """(success_edges, failure_edges) of the call at the end of `call_block`.
    An edge is (switch_block, target).  Empty success set = result never discriminated."""
    R, bools = result_locals(body, call_block, extra_pass)
    succ, fail = set(), set()
    for bi, b in enumerate(body.blocks):
        if b.get("cleanup"):
            continue
        t = b["term"]
        if t["k"] != "switch":
            continue
        dl = _op_local(t["discr"])
        if dl is None:
            continue
        # switch on discriminant(place in R)
        src = None
        for st in reversed(b["stmts"]):
            if st["lhs"]["l"] == dl and not st["lhs"].get("p"):
                if st["rv"]["k"] == "discr":
                    src = st["rv"]["pl"]
                break
        if src is not None and src["l"] in R and not _pl_has_payload_dc(src) and t.get("variants"):
            names = t["variants"]
            allv = t.get("allvariants") or []
            if not (set(allv) & (FAIL_VARIANTS | OK_VARIANTS)):
                continue  # Poll etc: transparent
            listed = set(n for n in names if n)
            for n, tg in zip(names, t["targets"]):
                if n in FAIL_VARIANTS:
                    fail.add((bi, tg))
                elif n in OK_VARIANTS:
                    succ.add((bi, tg))
            rest = set(allv) - listed
            if rest:
                if rest & FAIL_VARIANTS and not (rest & OK_VARIANTS):
                    fail.add((bi, t["otherwise"]))
                elif rest & OK_VARIANTS and not (rest & FAIL_VARIANTS):
                    succ.add((bi, t["otherwise"]))
            continue
        if dl in bools and t["values"] == [0]:
            pol = bools[dl]
            false_edge = (bi, t["targets"][0])
            true_edge = (bi, t["otherwise"])
            if pol:
                succ.add(true_edge)
                fail.add(false_edge)
            else:
                succ.add(false_edge)
                fail.add(true_edge)
    # an edge that is both (degenerate CFG) counts as neither
    both = succ & fail
    return succ - both, fail - both


# ----------------------------------------------------------------- exits

def _classify_rv(body, rv, depth=0):
    if rv["k"] == "agg" and rv.get("ak") == "adt":
        v = rv.get("variant")
        a = rv.get("adt", "")
        if a.endswith("::Result") or a.endswith("::Option") or a.endswith("::Poll") or a.endswith("::ControlFlow"):
            if v in ("Ok", "Some", "Continue"):
                return "ok"
            if v in ("Err", "Break", "None"):
                return "err"
            if v == "Ready" and rv["ops"]:
                l = _op_local(rv["ops"][0])
                if l is not None and depth < 4:
                    return _classify_local(body, l, depth + 1)
        return "unknown"
    if rv["k"] == "use":
        l = _op_local(rv["o"])
        if l is not None and not rv["o"]["pl"].get("p") and depth < 4:
            return _classify_local(body, l, depth + 1)
    return "unknown"


def _classify_local(body, l, depth):
    ds = body.defs().get(l, [])
    kinds = set()
    for (bi, si, k, pay) in ds:
        if k == "assign":
            if pay["lhs"].get("p"):
                return "unknown"
            kinds.add(_classify_rv(body, pay["rv"], depth))
        elif k == "call":
            if pay["callee"] == "std::ops::FromResidual::from_residual":
                kinds.add("err")
            else:
                kinds.add("unknown")
        else:
            kinds.add("unknown")
    if len(kinds) == 1:
        return kinds.pop()
    return "unknown"


def exit_defs(body, local=0, depth=0, _seen=None):
    """definition sites of the return place: [(block, idx, 'ok'|'err'|'unknown')].
    `_0 = move _r` where _r has several definitions (e.g. the cas_retry! result variable) is
    expanded into the definition sites of _r, each classified on its own."""
    _seen = _seen if _seen is not None else set()
    if local in _seen:
        return []
    _seen.add(local)
    out = []
    for (bi, si, k, pay) in body.defs().get(local, []):
        if k == "assign":
            if pay["lhs"].get("p"):
                out.append((bi, si, "unknown"))
                continue
            rv = pay["rv"]
            cls = _classify_rv(body, rv)
            if cls == "unknown" and rv["k"] == "use" and depth < 4:
                l = _op_local(rv["o"])
                if l is not None and not rv["o"]["pl"].get("p") and l > body.nargs:
                    sub = exit_defs(body, l, depth + 1, _seen)
                    if sub:
                        out.extend(sub)
                        continue
            out.append((bi, si, cls))
        elif k == "call":
            if pay["callee"] == "std::ops::FromResidual::from_residual":
                out.append((bi, si, "err"))
            else:
                out.append((bi, si, "unknown"))
    return out


# ----------------------------------------------------------------- provenance

PURE_ADAPTERS = {
    "std::clone::Clone::clone", "std::borrow::ToOwned::to_owned", "std::string::ToString::to_string",
    "std::convert::Into::into", "std::convert::From::from", "std::convert::AsRef::as_ref",
    "std::ops::Deref::deref", "std::ops::DerefMut::deref_mut", "std::borrow::Borrow::borrow",
    "std::option::Option::<T>::as_ref", "std::option::Option::<T>::as_deref", "std::option::Option::<T>::as_mut",
    "std::option::Option::<T>::cloned", "std::option::Option::<&T>::cloned", "std::option::Option::<T>::unwrap",
    "std::option::Option::<T>::expect", "std::option::Option::<T>::unwrap_or_default", "std::option::Option::<T>::map",
    "std::option::Option::<T>::ok_or_else", "std::option::Option::<T>::ok_or", "std::option::Option::<T>::take",
    "std::option::Option::<&T>::copied", "std::option::Option::<T>::copied",
    "std::result::Result::<T, E>::map_err", "std::result::Result::<T, E>::unwrap", "std::result::Result::<T, E>::expect",
    "std::result::Result::<T, E>::map", "std::result::Result::<T, E>::ok", "std::result::Result::<T, E>::as_ref",
    "std::string::String::as_str", "std::string::String::as_bytes", "std::vec::Vec::<T, A>::as_slice",
    "std::sync::Arc::<T>::new", "std::boxed::Box::<T>::new", "std::boxed::Box::<T>::pin",
    "std::ops::Try::branch", "std::future::IntoFuture::into_future", "futures::Future::poll", "std::future::Future::poll",
    "std::pin::Pin::<Ptr>::new_unchecked", "std::pin::Pin::<Ptr>::as_mut", "std::pin::Pin::<Ptr>::new",
    "std::iter::IntoIterator::into_iter", "core::slice::<impl [T]>::iter", "std::iter::Iterator::cloned",
    "std::iter::Iterator::copied", "std::iter::Iterator::collect", "std::iter::Iterator::filter",
    "std::iter::Iterator::map", "std::iter::Iterator::next", "std::iter::Iterator::enumerate", "std::iter::Iterator::rev",
    "std::iter::Iterator::take", "std::iter::Iterator::skip", "std::iter::Iterator::peekable",
    "core::slice::<impl [T]>::to_vec", "std::vec::Vec::<T, A>::iter", "core::str::<impl str>::to_string",
    "core::str::<impl str>::to_owned", "object_store::path::Path::from", "std::mem::take",
    "std::ops::FromResidual::from_residual", "std::mem::replace",
}


def const_repr(o):
    if "int" in o:
        return str(o["int"])
    if "pval" in o:
        return o["pval"]
    return str(o.get("val", o.get("fn", o.get("closure", "?"))))


class Origin(tuple):
    """(kind, detail, projection string)  kinds: call, arg, const, upvar, agg, other"""
    __slots__ = ()


def _proj_key(p):
    out = []
    for x in p or []:
        if x == "*" or x == "cast":
            continue
        if isinstance(x, dict):
            if "f" in x:
                out.append(".%s" % (x.get("n") or x["f"]))
            elif "dc" in x:
                out.append("@%s" % x["dc"])
            elif "ix" in x or "cix" in x or "sub" in x:
                out.append("[]")
    return out


def provenance(body, place, at=None, adapters=PURE_ADAPTERS, max_nodes=4000, stop_at=None):
    """backward def-use closure: set of origins the value in `place` may come from.
    Origins: ('call', (block, callee), proj) ('arg', n, proj) ('const', repr, '') ('upvar', name, proj)
             ('agg', (block, idx, what), proj) ('bin', (block, idx, op), '') ('other', ..)
    Flow-insensitive over locals, field-sensitive through tuple/struct aggregates and destructuring.
    `adapters`: callees whose result is treated as derived from their arguments.
    `stop_at`: optional predicate(term) -> bool: treat the call as an origin even if it is an adapter."""
    origins = set()
    seen = set()
    work = [(place["l"], tuple(_proj_key(place.get("p"))), at)]
    defs = body.defs()
    n = 0
    while work:
        l, proj, site = work.pop()
        if (l, proj, site) in seen:
            continue
        seen.add((l, proj, site))
        n += 1
        if n > max_nodes:
            origins.add(("other", "budget", ""))
            break
        if l == 2 and body.j["kind"] == "coroutine":
            continue  # resume argument (task context)
        if 1 <= l <= body.nargs:
            # closures/coroutines: _1 is the environment
            if body.j["kind"] in ("closure", "coroutine") and l == 1:
                nm = None
                for x in proj:
                    if x.startswith("."):
                        nm = x[1:]
                        break
                origins.add(("upvar", nm or "?", "".join(proj[1:]) if proj else ""))
            else:
                origins.add(("arg", l, "".join(proj)))
            # arguments may also be re-assigned; fall through to defs
        ds = defs.get(l, [])
        for (bi, si, k, pay) in ds:
            if site is not None and not body.def_reaches((bi, si), site):
                continue
            here = (bi, si) if at is not None else None
            if k == "assign":
                lhs_proj = tuple(_proj_key(pay["lhs"].get("p")))
                # assignment to a sub-place only matters if it is a prefix-compatible path
                if lhs_proj and proj and not (proj[:len(lhs_proj)] == lhs_proj or lhs_proj[:len(proj)] == proj):
                    continue
                rest = proj[len(lhs_proj):] if proj[:len(lhs_proj)] == lhs_proj else ()
                rv = pay["rv"]
                rk = rv["k"]
                if rk == "use" or rk == "cast" or rk == "repeat":
                    o = rv["o"]
                    if o["k"] in ("copy", "move"):
                        work.append((o["pl"]["l"], tuple(_proj_key(o["pl"].get("p"))) + rest, here))
                    elif o["k"] == "const":
                        origins.add(("const", const_repr(o), ""))
                elif rk in ("ref", "rawptr", "discr"):
                    work.append((rv["pl"]["l"], tuple(_proj_key(rv["pl"].get("p"))) + rest, here))
                elif rk == "agg":
                    ak = rv["ak"]
                    fields = rv.get("fields")
                    ops = rv["ops"]
                    sel = None
                    if rest and ak not in ("closure", "coroutine"):
                        # skip a leading @Variant selector
                        r0 = rest
                        if r0 and r0[0].startswith("@"):
                            r0 = r0[1:]
                        if r0 and r0[0].startswith("."):
                            fname = r0[0][1:]
                            if fields and fname in fields:
                                sel = (fields.index(fname), r0[1:])
                            elif fname.isdigit() and int(fname) < len(ops):
                                sel = (int(fname), r0[1:])
                    what = rv.get("variant") or rv.get("def") or ak
                    origins.add(("agg", (bi, si, "%s::%s" % (rv.get("adt", ak), what) if ak == "adt" else what), ""))
                    if sel is not None:
                        o = ops[sel[0]]
                        if o["k"] in ("copy", "move"):
                            work.append((o["pl"]["l"], tuple(_proj_key(o["pl"].get("p"))) + tuple(sel[1]), here))
                        elif o["k"] == "const":
                            origins.add(("const", const_repr(o), ""))
                    else:
                        for o in ops:
                            if o["k"] in ("copy", "move"):
                                work.append((o["pl"]["l"], tuple(_proj_key(o["pl"].get("p"))), here))
                            elif o["k"] == "const":
                                origins.add(("const", const_repr(o), ""))
                elif rk in ("bin", "un"):
                    origins.add(("bin", (bi, si, rv["op"]), ""))
                    for key in ("a", "b"):
                        o = rv.get(key)
                        if o is None:
                            continue
                        if o["k"] in ("copy", "move"):
                            work.append((o["pl"]["l"], tuple(_proj_key(o["pl"].get("p"))), here))
                        elif o["k"] == "const":
                            origins.add(("const", const_repr(o), ""))
                else:
                    origins.add(("other", rv.get("dbg", rk)[:60], ""))
            elif k == "call":
                cal = pay["callee"]
                is_adapter = cal in adapters and not (stop_at and stop_at(pay))
                if is_adapter:
                    # value-carrying args: all place operands (closures included: their upvars matter rarely)
                    for a in pay["args"]:
                        if a["k"] in ("copy", "move"):
                            # adapters keep the shape: carry the projection through for the first argument
                            work.append((a["pl"]["l"], tuple(_proj_key(a["pl"].get("p"))) + (proj if a is pay["args"][0] else ()), here))
                        elif a["k"] == "const" and "fn" not in a and "closure" not in a:
                            origins.add(("const", const_repr(a), ""))
                elif cal == "std::future::get_context":
                    pass
                else:
                    origins.add(("call", (bi, pay.get("resolved") or cal), "".join(proj)))
            elif k == "yield":
                origins.add(("other", "resume", ""))
    return origins


def origin_calls(origins):
    return [(o[1][0], o[1][1], o[2]) for o in origins if o[0] == "call"]


# ----------------------------------------------------------------- guards

GUARD_TY = re.compile(
    r"^(tokio::sync::(MutexGuard|RwLockReadGuard|RwLockWriteGuard|OwnedMutexGuard|OwnedRwLockReadGuard|OwnedRwLockWriteGuard|SemaphorePermit|OwnedSemaphorePermit)"
    r"|std::sync::(MutexGuard|RwLockReadGuard|RwLockWriteGuard)"
    r"|parking_lot::[A-Za-z_:]*Guard|lock_api::[A-Za-z_:]*Guard"
    r"|dashmap::mapref::one::(Ref|RefMut)|dashmap::mapref::entry::(Entry|OccupiedEntry|VacantEntry)|dashmap::Entry|dashmap::OccupiedEntry|dashmap::VacantEntry)\b")


def guard_locals(body, extra=None):
    out = {}
    for i, l in enumerate(body.locals):
        ty = l["ty"]
        if GUARD_TY.match(ty) or (extra and extra.match(ty)):
            out[i] = ty
    return out


def held_at(body, guard_local, block):
    """must-analysis: on every path entry -> start of `block`, guard_local has been initialised and
    not dropped / moved since."""
    # init points
    gen = set()  # blocks at whose end the guard is held (defined in this block and not killed after)
    kill = set()
    for bi, b in enumerate(body.blocks):
        if b.get("cleanup"):
            continue
        state = None
        for st in b["stmts"]:
            if st["lhs"]["l"] == guard_local and not st["lhs"].get("p"):
                state = True
            rv = st["rv"]
            if rv["k"] == "use" and rv["o"]["k"] == "move" and rv["o"]["pl"]["l"] == guard_local and not rv["o"]["pl"].get("p"):
                state = False
        t = b["term"]
        if t["k"] == "drop" and t["pl"]["l"] == guard_local and not t["pl"].get("p"):
            state = False
        elif t["k"] == "call":
            for a in t["args"]:
                if a["k"] == "move" and a["pl"]["l"] == guard_local and not a["pl"].get("p"):
                    state = False
            if t["dest"]["l"] == guard_local and not t["dest"].get("p"):
                state = True
        if state is True:
            gen.add(bi)
        elif state is False:
            kill.add(bi)
    # forward must dataflow
    n = len(body.blocks)
    IN = [True] * n
    OUT = [True] * n
    IN[0] = False
    reach = body.reachable(0)
    changed = True
    while changed:
        changed = False
        for b in range(n):
            if b not in reach:
                continue
            if b != 0:
                ps = [p for p in body.preds(b) if p in reach]
                v = all(OUT[p] for p in ps) if ps else False
            else:
                v = False
            if v != IN[b]:
                IN[b] = v
                changed = True
            o = True if b in gen else (False if b in kill else IN[b])
            if o != OUT[b]:
                OUT[b] = o
                changed = True
    return IN[block]


def guard_source(body, guard_local):
    """the lock field a guard came from: name of the `self.<field>` (or upvar / local) reached by
    walking the guard's provenance through lock()/read()/write()/get()/entry() receivers"""
    LOCKERS = PURE_ADAPTERS | {
        "tokio::sync::Mutex::<T>::lock", "tokio::sync::RwLock::<T>::read", "tokio::sync::RwLock::<T>::write",
        "std::sync::Mutex::<T>::lock", "std::sync::RwLock::<T>::read", "std::sync::RwLock::<T>::write",
        "tokio::sync::Mutex::<T>::try_lock", "tokio::sync::RwLock::<T>::try_write", "tokio::sync::RwLock::<T>::try_read",
    }
    lockers = set(LOCKERS)
    for bi, t in body.calls():
        c = t["callee"]
        if c.startswith("dashmap::DashMap") or c.startswith("parking_lot::") or c.startswith("lock_api::"):
            lockers.add(c)
    org = provenance(body, {"l": guard_local}, adapters=lockers)
    fields = set()
    for o in org:
        if o[0] in ("arg", "upvar"):
            fields.add((o[1], o[2]))
    return fields


# ----------------------------------------------------------------- boolean switches

def bool_switches(body):
    """every two-way switch on a bool: [{block, true_edge, false_edge, root}] where root is the
    defining (block, idx, kind, payload) of the tested value after stripping copies and `Not`s
    (polarity folded into the edges)."""
    out = []
    defs = body.defs()
    for bi, b in enumerate(body.blocks):
        if b.get("cleanup"):
            continue
        t = b["term"]
        if t["k"] != "switch" or t.get("dty") != "bool" or t["values"] != [0]:
            continue
        l = _op_local(t["discr"])
        if l is None:
            continue
        neg = False
        root = None
        for _ in range(12):
            ds = [d for d in defs.get(l, []) if not (d[2] == "assign" and d[3]["lhs"].get("p"))]
            if len(ds) != 1:
                root = (None, None, "multi", ds)
                break
            d = ds[0]
            if d[2] == "assign":
                rv = d[3]["rv"]
                if rv["k"] == "use" and rv["o"]["k"] in ("copy", "move") and not rv["o"]["pl"].get("p"):
                    l = rv["o"]["pl"]["l"]
                    continue
                if rv["k"] == "un" and rv["op"] == "Not" and rv["a"]["k"] in ("copy", "move") and not rv["a"]["pl"].get("p"):
                    neg = not neg
                    l = rv["a"]["pl"]["l"]
                    continue
            root = d
            break
        te, fe = (bi, t["otherwise"]), (bi, t["targets"][0])
        if neg:
            te, fe = fe, te
        out.append({"block": bi, "true_edge": te, "false_edge": fe, "root": root})
    return out


def outcome_edges_of_local(body, local, extra_pass=()):
    """as outcome_edges, for a value that starts life in `local` (e.g. an async block aggregate)"""
    R = {local}
    passes = PASS_THROUGH | set(extra_pass)
    changed = True
    while changed:
        changed = False
        for b in body.blocks:
            if b.get("cleanup"):
                continue
            for st in b["stmts"]:
                lhs = st["lhs"]
                if lhs.get("p"):
                    continue
                rv = st["rv"]
                src = None
                if rv["k"] in ("use", "cast"):
                    src = _op_place(rv["o"])
                elif rv["k"] in ("ref", "rawptr"):
                    src = rv["pl"]
                if src is not None and src["l"] in R and not _pl_has_payload_dc(src) and lhs["l"] not in R:
                    R.add(lhs["l"])
                    changed = True
            tt = b["term"]
            if tt["k"] == "call" and tt["callee"] in passes and tt["args"]:
                a0 = _op_place(tt["args"][0])
                if a0 is not None and a0["l"] in R and not _pl_has_payload_dc(a0):
                    d = tt["dest"]["l"]
                    if d not in R and not tt["dest"].get("p"):
                        R.add(d)
                        changed = True
    succ, fail = set(), set()
    for bi, b in enumerate(body.blocks):
        if b.get("cleanup"):
            continue
        t = b["term"]
        if t["k"] != "switch" or not t.get("variants"):
            continue
        dl = _op_local(t["discr"])
        src = None
        for st in reversed(b["stmts"]):
            if st["lhs"]["l"] == dl and not st["lhs"].get("p"):
                if st["rv"]["k"] == "discr":
                    src = st["rv"]["pl"]
                break
        if src is None or src["l"] not in R or _pl_has_payload_dc(src):
            continue
        allv = t.get("allvariants") or []
        if not (set(allv) & (FAIL_VARIANTS | OK_VARIANTS)):
            continue
        names = t["variants"]
        listed = set(n for n in names if n)
        for n, tg in zip(names, t["targets"]):
            if n in FAIL_VARIANTS:
                fail.add((bi, tg))
            elif n in OK_VARIANTS:
                succ.add((bi, tg))
        rest = set(allv) - listed
        if rest:
            if rest & FAIL_VARIANTS and not (rest & OK_VARIANTS):
                fail.add((bi, t["otherwise"]))
            elif rest & OK_VARIANTS and not (rest & FAIL_VARIANTS):
                succ.add((bi, t["otherwise"]))
    both = succ & fail
    return succ - both, fail - both


def find_calls(body, pred):
    """blocks whose call terminator's declared or resolved callee satisfies pred (str -> bool)"""
    out = []
    for bi, t in body.calls():
        if pred(t["callee"]) or (t.get("resolved") and pred(t["resolved"])):
            out.append(bi)
    return out


def aggregates(body, pred):
    """[(block, idx, stmt)] of aggregate assignments whose rvalue satisfies pred(rv)"""
    out = []
    for bi, b in enumerate(body.blocks):
        if b.get("cleanup"):
            continue
        for si, st in enumerate(b["stmts"]):
            if st["rv"]["k"] == "agg" and pred(st["rv"]):
                out.append((bi, si, st))
    return out


UNWRAP_RX = re.compile(r"@(Ready|Continue|Ok|Some)\.0")


def strip_unwraps(proj):
    """'.1' from '@Ready.0@Continue.0.1': drop payload-unwrapping steps of await / ? / match Ok"""
    return UNWRAP_RX.sub("", proj)


# ----------------------------------------------------------------- variant flow
# Forward may-analysis of which enum variant a Result / Option / ControlFlow local can hold, used to
# prune switch edges that are infeasible on the explored sub-graph (e.g. `__cas_result?` after the
# only `Ok(..)` assignment was cut off).

_TRY_IMAGE = {"Ok": "Continue", "Some": "Continue", "Err": "Break", "None": "Break"}
TOP = None


class VariantFlow:
    def __init__(self, body, removed_edges=(), removed_blocks=(), start=0):
        self.body = body
        self.rem_e = set(removed_edges)
        self.rem_b = set(removed_blocks)
        self.tracked = self._tracked()
        self.IN = {}
        self._run(start)

    def _tracked(self):
        b = self.body
        cand = set()
        for i, l in enumerate(b.locals):
            ty = l["ty"]
            if ty.startswith(("std::result::Result<", "std::option::Option<", "std::ops::ControlFlow<")) and i > b.nargs:
                cand.add(i)
        bad = set()
        for blk in b.blocks:
            for st in blk["stmts"]:
                l = st["lhs"]["l"]
                if l in cand and st["lhs"].get("p"):
                    bad.add(l)
                rv = st["rv"]
                if rv["k"] in ("ref", "rawptr") and (rv.get("mut") or rv["k"] == "rawptr") and rv["pl"]["l"] in cand and not rv["pl"].get("p"):
                    bad.add(rv["pl"]["l"])
        return cand - bad

    def _transfer(self, bi, state):
        b = self.body
        st_ = dict(state)
        blk = b.blocks[bi]
        for st in blk["stmts"]:
            l = st["lhs"]["l"]
            if l not in self.tracked or st["lhs"].get("p"):
                continue
            rv = st["rv"]
            if rv["k"] == "agg" and rv.get("ak") == "adt":
                st_[l] = frozenset([rv["variant"]])
            elif rv["k"] == "use" and rv["o"]["k"] in ("copy", "move") and not rv["o"]["pl"].get("p") and rv["o"]["pl"]["l"] in self.tracked:
                st_[l] = st_.get(rv["o"]["pl"]["l"], TOP)
            else:
                st_[l] = TOP
        t = blk["term"]
        if t["k"] == "call":
            d = t["dest"]["l"]
            if d in self.tracked and not t["dest"].get("p"):
                v = TOP
                if t["callee"] == "std::ops::Try::branch" and t["args"] and t["args"][0]["k"] in ("copy", "move"):
                    a = t["args"][0]["pl"]
                    if not a.get("p") and a["l"] in self.tracked:
                        s = st_.get(a["l"], TOP)
                        if s is not TOP:
                            v = frozenset(_TRY_IMAGE.get(x, x) for x in s)
                st_[d] = v
        elif t["k"] == "yield":
            pass
        return st_

    def feasible_succs(self, bi, state_out):
        b = self.body
        t = b.term(bi)
        succs = [s for s in b.succs(bi) if (bi, s) not in self.rem_e and s not in self.rem_b]
        if t["k"] == "switch" and t.get("variants"):
            dl = _op_local(t["discr"])
            src = None
            for st in reversed(b.blocks[bi]["stmts"]):
                if st["lhs"]["l"] == dl and not st["lhs"].get("p"):
                    if st["rv"]["k"] == "discr" and not st["rv"]["pl"].get("p"):
                        src = st["rv"]["pl"]["l"]
                    break
            if src is not None and src in self.tracked:
                s = state_out.get(src, TOP)
                if s is not TOP:
                    ok = set()
                    listed = set()
                    for n, tg in zip(t["variants"], t["targets"]):
                        listed.add(n)
                        if n in s:
                            ok.add(tg)
                    if s - listed:
                        ok.add(t["otherwise"])
                    succs = [x for x in succs if x in ok]
        return succs

    def _join(self, a, b):
        if a is None:
            return dict(b)
        out = {}
        for k in set(a) | set(b):
            x, y = a.get(k, TOP), b.get(k, TOP)
            out[k] = TOP if (x is TOP or y is TOP) else (x | y)
        return out

    def _run(self, start, init=None):
        if start in self.rem_b:
            return
        self.IN = {start: dict(init or {})}
        work = deque([start])
        n = 0
        while work:
            bi = work.popleft()
            n += 1
            if n > 200000:
                break
            out = self._transfer(bi, self.IN[bi])
            for s in self.feasible_succs(bi, out):
                old = self.IN.get(s)
                new = self._join(old, out)
                # keys missing in `old` are TOP by convention only when old exists
                if old is None or new != old:
                    if old is not None:
                        # widen: a key present in only one side becomes TOP
                        for k in set(old) ^ set(out):
                            new[k] = TOP
                    if old is None or new != old:
                        self.IN[s] = new
                        work.append(s)

    def reachable_blocks(self):
        return set(self.IN.keys())

    def reachable_from(self, starts, extra_removed_edges=(), extra_removed_blocks=()):
        """blocks reachable from `starts` (each must be reachable in this flow) using the computed
        entry states for pruning, additionally avoiding the extra edges / blocks"""
        rem_e = set(extra_removed_edges)
        rem_b = set(extra_removed_blocks)
        seen = set()
        dq = deque()
        for s in starts:
            if s in self.IN and s not in rem_b:
                seen.add(s)
                dq.append(s)
        while dq:
            bi = dq.popleft()
            out = self._transfer(bi, self.IN.get(bi, {}))
            for s in self.feasible_succs(bi, out):
                if (bi, s) in rem_e or s in rem_b or s in seen or s not in self.IN:
                    continue
                seen.add(s)
                dq.append(s)
        return seen


# ----------------------------------------------------------------- comparison switches

_CMP_OPS = {"Lt", "Le", "Gt", "Ge", "Eq", "Ne"}
_CMP_CALLS = {"std::cmp::PartialOrd::lt": "Lt", "std::cmp::PartialOrd::le": "Le", "std::cmp::PartialOrd::gt": "Gt",
              "std::cmp::PartialOrd::ge": "Ge", "std::cmp::PartialEq::eq": "Eq", "std::cmp::PartialEq::ne": "Ne"}


def operand_origins(body, o, **kw):
    """kw: at=(block, idx) use site for partial flow sensitivity (definitions that cannot execute before it are ignored)"""
    if o["k"] in ("copy", "move"):
        return provenance(body, o["pl"], **kw)
    if o["k"] == "const":
        return {("const", const_repr(o), "")}
    return set()


def cmp_switches(body, **kw):
    """two-way switches on a comparison: [{block, op, a, b (operands), true_edge, false_edge}]
    (primitive BinaryOp comparisons and PartialOrd/PartialEq calls; `Not`s folded into the edges)"""
    out = []
    for sw in bool_switches(body):
        r = sw["root"]
        if not r or r[2] not in ("assign", "call"):
            continue
        if r[2] == "assign":
            rv = r[3]["rv"]
            if rv["k"] != "bin" or rv["op"] not in _CMP_OPS:
                continue
            op, a, b = rv["op"], rv["a"], rv["b"]
        else:
            t = r[3]
            if t["callee"] not in _CMP_CALLS or len(t["args"]) != 2:
                continue
            op, a, b = _CMP_CALLS[t["callee"]], t["args"][0], t["args"][1]
        out.append({"block": sw["block"], "op": op, "a": a, "b": b, "true_edge": sw["true_edge"], "false_edge": sw["false_edge"],
                    "def_block": r[0], "site": (r[0], r[1])})
    return out


# relation wanted -> {(op as written with (A,B)): edge on which the relation is guaranteed}
_IMPLY = {
    "lt": {("Lt", False): "true_edge", ("Ge", False): "false_edge", ("Gt", True): "true_edge", ("Le", True): "false_edge"},
    "le": {("Le", False): "true_edge", ("Gt", False): "false_edge", ("Ge", True): "true_edge", ("Lt", True): "false_edge",
           ("Lt", False): "true_edge", ("Gt", True): "true_edge", ("Eq", False): "true_edge", ("Eq", True): "true_edge",
           ("Ne", False): "false_edge", ("Ne", True): "false_edge"},
    "eq": {("Eq", False): "true_edge", ("Eq", True): "true_edge", ("Ne", False): "false_edge", ("Ne", True): "false_edge"},
    "ne": {("Ne", False): "true_edge", ("Ne", True): "true_edge", ("Eq", False): "false_edge", ("Eq", True): "false_edge",
           ("Lt", False): "true_edge", ("Lt", True): "true_edge", ("Gt", False): "true_edge", ("Gt", True): "true_edge"},
}


def edges_implying(body, rel, is_a, is_b, **kw):
    """edges on which `A rel B` is guaranteed, where A / B are recognised by predicates over the
    origin set of a comparison operand.  Returns (edges, switches_considered)"""
    edges = set()
    used = []
    for sw in cmp_switches(body):
        kw2 = dict(kw)
        kw2.setdefault("at", sw["site"])
        oa = operand_origins(body, sw["a"], **kw2)
        ob = operand_origins(body, sw["b"], **kw2)
        for swapped, (x, y) in ((False, (oa, ob)), (True, (ob, oa))):
            if is_a(x) and is_b(y):
                e = _IMPLY[rel].get((sw["op"], swapped))
                used.append(sw)
                if e:
                    edges.add(sw[e])
    return edges, used


def has_call(origins, pred):
    return any(o[0] == "call" and pred(o[1][1]) for o in origins)


def has_field(origins, kind, name_suffix):
    """origin is a parameter / upvar (kind 'arg'|'upvar'|None for either) whose projection ends with name_suffix"""
    for o in origins:
        if o[0] in ("arg", "upvar") and (kind is None or o[0] == kind):
            full = ("." + str(o[1]) if o[0] == "upvar" else "") + o[2]
            if full.endswith(name_suffix):
                return True
    return False


# ----------------------------------------------------------------- boolean closures

def _resolve_cmp(body, bi, si, k, pay, depth=0):
    """definition -> (op, a, b, negated, site) following copies and `Not`s, or None"""
    if depth > 6:
        return None
    if k == "call":
        if pay["callee"] in _CMP_CALLS and len(pay["args"]) == 2:
            return (_CMP_CALLS[pay["callee"]], pay["args"][0], pay["args"][1], False, (bi, T))
        return None
    if k != "assign":
        return None
    rv = pay["rv"]
    if rv["k"] == "bin" and rv["op"] in _CMP_OPS:
        return (rv["op"], rv["a"], rv["b"], False, (bi, si))
    src = None
    neg = False
    if rv["k"] == "use" and rv["o"]["k"] in ("copy", "move") and not rv["o"]["pl"].get("p"):
        src = rv["o"]["pl"]["l"]
    elif rv["k"] == "un" and rv["op"] == "Not" and rv["a"]["k"] in ("copy", "move") and not rv["a"]["pl"].get("p"):
        src = rv["a"]["pl"]["l"]
        neg = True
    if src is None:
        return None
    ds = [d for d in body.defs().get(src, []) if not (d[2] == "assign" and d[3]["lhs"].get("p"))]
    if len(ds) != 1:
        return None
    r = _resolve_cmp(body, ds[0][0], ds[0][1], ds[0][2], ds[0][3], depth + 1)
    if r is None:
        return None
    return (r[0], r[1], r[2], r[3] != neg, r[4])


def closure_true_implies(body, rel, is_a, is_b):
    """for a closure / fn returning bool: does `returns true` guarantee `A rel B`?
    Handles `_0 = [!]cmp(a, b)` (primitive op or PartialOrd call, through copies) and branchy bodies where every
    `_0 = const true` definition is dominated by edges implying the relation.
    Returns (True/False, explanation)"""
    defs0 = [d for d in body.defs().get(0, [])]
    if not defs0:
        return False, "no return value"
    edges, used = edges_implying(body, rel, is_a, is_b)
    if body.locals[0]["ty"] != "bool":
        return False, "does not return bool"
    seen = False
    for (bi, si, k, pay) in defs0:
        if k == "assign" and pay["rv"]["k"] == "use" and pay["rv"]["o"]["k"] == "const":
            if pay["rv"]["o"].get("int") == 1:
                if not (edges and body.dominated_by_edges(bi, edges)):
                    return False, "a `true` result at %s is not guarded by the comparison" % body.sp(bi, si)
                seen = True
            continue
        r = _resolve_cmp(body, bi, si, k, pay)
        if r is None:
            return False, "result at %s is not a comparison" % body.sp(bi, si)
        op, a, b, neg, site = r
        oa = operand_origins(body, a, at=site)
        ob = operand_origins(body, b, at=site)
        ok = False
        want = "false_edge" if neg else "true_edge"
        for swapped, (x, y) in ((False, (oa, ob)), (True, (ob, oa))):
            if is_a(x) and is_b(y) and _IMPLY[rel].get((op, swapped)) == want:
                ok = True
        if not ok:
            return False, "comparison %s%s at %s does not imply the required relation" % ("!" if neg else "", op, body.sp(site[0], site[1]))
        seen = True
    if not seen:
        return False, "never returns true through the comparison"
    return True, "ok"


def root_defs(body, op, depth=0, seen=None):
    """the defining rvalues a value can come from, following only plain copies / moves (no calls, no adapters):
    [('bin', opname, (bi, si)) | ('const', repr) | ('call', callee, bi) | ('agg', what, (bi, si)) | ('arg', local) | ('other', kind, (bi, si))].
    Flow-insensitive over the definitions of each local: every assignment counts, so a value assigned on one branch as x + 1
    and on another as x has two roots."""
    if seen is None:
        seen = set()
    if op.get("k") == "const":
        return [("const", const_repr(op))]
    if op.get("k") not in ("copy", "move"):
        return [("other", op.get("k"), None)]
    pl = op["pl"]
    l = pl["l"]
    proj = tuple(_proj_key(pl.get("p")))
    if (l, proj) in seen or depth > 12:
        return []
    seen.add((l, proj))
    out = []
    ds = body.defs().get(l, [])
    if not ds:
        return [("arg", l)]
    for (bi, si, k, pay) in ds:
        if k == "call":
            out.append(("call", pay["callee"], bi))
            continue
        if k != "assign":
            out.append(("other", k, (bi, si)))
            continue
        if pay["lhs"].get("p"):
            continue  # partial store into the local; not a definition of the value read through `proj`
        rv = pay["rv"]
        if rv["k"] == "use":
            out += root_defs(body, rv["o"], depth + 1, seen)
        elif rv["k"] == "bin":
            out.append(("bin", rv["op"], (bi, si)))
        elif rv["k"] == "agg":
            out.append(("agg", rv.get("adt") or rv.get("ak"), (bi, si)))
        else:
            out.append(("other", rv["k"], (bi, si)))
    return out
