"""Whole-program view over one or more fact units: call graph with class-hierarchy
expansion of `dyn` calls over the crate's own impls, named-parent keys, reachability,
who-may-call, and interprocedural must-pass-through summaries."""
import re
from collections import defaultdict, deque

from . import mir as M

CLOSURE_RX = re.compile(r"(::\{closure#\d+\})+$")
IMPL_RX = re.compile(r"^<(.+) as (.+?)>::([A-Za-z_0-9]+)$")


def named_parent(key):
    return CLOSURE_RX.sub("", key)


class Program:
    def __init__(self, units):
        self.units = units if isinstance(units, list) else [units]
        self.calls = {}
        self.unit_of = {}
        for u in self.units:
            for k, v in u.calls.items():
                kk = k if u is self.units[0] else "%s::%s" % (u.name, k)
                self.calls[kk] = v
                self.unit_of[kk] = (u, k)
        self._bodies = {}
        # trait impls: (trait, method) -> [impl def keys]
        self.impls = defaultdict(list)
        for k in self.calls:
            m = IMPL_RX.match(k)
            if m:
                self.impls[(m.group(2), m.group(3))].append(k)
        self._edges = None
        self._redges = None

    # ---- bodies
    def body(self, key):
        if key not in self._bodies:
            ent = self.unit_of.get(key)
            j = ent[0].mir(ent[1]) if ent else None
            self._bodies[key] = M.Body(j) if j else None
        return self._bodies[key]

    def code_key(self, fn_key):
        """the body holding the code of `fn_key`: its async block if the fn is an async shell"""
        k0 = fn_key + "::{closure#0}"
        if k0 in self.calls and self.calls[k0].get("kind") == "coroutine":
            # async fn / async_trait shell: the shell only builds (and boxes) the coroutine
            shell = self.calls.get(fn_key)
            if shell is not None:
                real = [c for c in shell["calls"] if not c.get("noise") and not c.get("cleanup")
                        and c["callee"] not in ("std::boxed::Box::<T>::pin", "std::boxed::Box::<T>::new", "std::pin::Pin::<Ptr>::new_unchecked")
                        and not c["callee"].startswith("tracing")]
                if len(real) <= 2:
                    return k0
            else:
                return k0
        return fn_key

    def code_body(self, fn_key):
        return self.body(self.code_key(fn_key))

    def fn_keys(self, pattern):
        rx = re.compile(pattern)
        return sorted(k for k in self.calls if rx.search(k))

    def sub_bodies(self, fn_key):
        """fn_key and every closure / async block nested in it"""
        pre = fn_key + "::{closure#"
        return sorted(k for k in self.calls if k == fn_key or k.startswith(pre))

    # ---- call graph
    def callees_of_site(self, c):
        """resolved local targets of one call-site record (CHA for trait-object / generic calls)"""
        out = []
        r = c.get("resolved")
        cal = c["callee"]
        if r and (c.get("rlocal") or r in self.calls):
            out.append(r)
        elif c.get("clocal") or cal in self.calls:
            if cal in self.calls:
                out.append(cal)
        # trait method call not resolved to an impl: expand over local impls
        if not out or (r is None and cal not in self.calls):
            i = cal.rfind("::")
            if i > 0:
                tr, m = cal[:i], cal[i + 2:]
                for k in self.impls.get((tr, m), []):
                    if k not in out:
                        out.append(k)
        return out

    def edges(self):
        if self._edges is None:
            e = defaultdict(set)
            for k, v in self.calls.items():
                for c in v["calls"]:
                    if c.get("cleanup"):
                        continue
                    for t in self.callees_of_site(c):
                        e[k].add(t)
                    for f in c.get("fargs", []):
                        if f in self.calls:
                            e[k].add(f)
            # a fn "calls" its nested closures / async blocks (constructed there)
            for k in self.calls:
                p = k.rsplit("::{closure#", 1)
                if len(p) == 2 and p[0] in self.calls:
                    e[p[0]].add(k)
            self._edges = e
            r = defaultdict(set)
            for a, bs in e.items():
                for b in bs:
                    r[b].add(a)
            self._redges = r
        return self._edges

    def redges(self):
        self.edges()
        return self._redges

    def reachable_from(self, roots):
        e = self.edges()
        seen = set(roots)
        dq = deque(roots)
        while dq:
            k = dq.popleft()
            for t in e.get(k, ()):
                if t not in seen:
                    seen.add(t)
                    dq.append(t)
        return seen

    def callers_closure(self, targets):
        r = self.redges()
        seen = set(targets)
        dq = deque(targets)
        while dq:
            k = dq.popleft()
            for t in r.get(k, ()):
                if t not in seen:
                    seen.add(t)
                    dq.append(t)
        return seen

    def call_path(self, root, target):
        e = self.edges()
        prev = {root: None}
        dq = deque([root])
        while dq:
            k = dq.popleft()
            if k == target:
                out = []
                while k is not None:
                    out.append(k)
                    k = prev[k]
                return out[::-1]
            for t in sorted(e.get(k, ())):
                if t not in prev:
                    prev[t] = k
                    dq.append(t)
        return None

    def sites(self, callee_pred, within=None, include_noise=False):
        """[(body_key, call_record)] of call sites whose declared or resolved callee satisfies the predicate"""
        out = []
        keys = within if within is not None else self.calls.keys()
        for k in keys:
            v = self.calls.get(k)
            if not v:
                continue
            for c in v["calls"]:
                if c.get("cleanup"):
                    continue
                if c.get("noise") and not include_noise:
                    continue
                if callee_pred(c["callee"]) or (c.get("resolved") and callee_pred(c["resolved"])):
                    out.append((k, c))
        return out

    # ---- interprocedural must-pass-through
    def call_blocks(self, body_key, callee_set):
        """blocks in body whose call terminator targets (declared / resolved / CHA) a member of callee_set"""
        b = self.body(body_key)
        if b is None:
            return []
        out = []
        for bi, t in b.calls():
            if self.term_targets(t) & callee_set:
                out.append(bi)
        return out

    def term_targets(self, t):
        s = {t["callee"]}
        if t.get("resolved"):
            s.add(t["resolved"])
        cal = t["callee"]
        if t.get("resolved") is None or t.get("resolved") not in self.calls:
            i = cal.rfind("::")
            if i > 0:
                for k in self.impls.get((cal[:i], cal[i + 2:]), []):
                    s.add(k)
        return s

    def must_wrappers(self, effect, max_rounds=6):
        """least fixpoint: local fns all of whose ok/unknown exits are dominated by the success of a
        call to `effect` ∪ wrappers.  `effect` is a set of callee paths."""
        W = set()
        for _ in range(max_rounds):
            grew = False
            X = set(effect) | W
            # candidates: callers of anything in X
            cands = set()
            for k, v in self.calls.items():
                for c in v["calls"]:
                    if c.get("cleanup"):
                        continue
                    ts = {c["callee"]}
                    if c.get("resolved"):
                        ts.add(c["resolved"])
                    if ts & X:
                        cands.add(named_parent(k) if k.endswith("{closure#0}") else k)
                        cands.add(k)
            for fk in cands:
                if fk in X:
                    continue
                ck = self.code_key(fk)
                if ck != fk and fk not in self.calls:
                    continue
                b = self.body(ck)
                if b is None:
                    continue
                blocks = self.call_blocks(ck, X)
                if not blocks:
                    continue
                edges = set()
                for cb in blocks:
                    s, f = M.outcome_edges(b, cb)
                    if s:
                        edges |= s
                    else:
                        # infallible / undiscriminated: count the call's own return edge
                        tg = b.term(cb).get("target")
                        if tg is not None and f == set():
                            edges.add((cb, tg))
                exits = [e for e in M.exit_defs(b) if e[2] != "err"]
                if not exits:
                    continue
                if all(b.dominated_by_edges(e[0], edges) for e in exits):
                    W.add(fk)
                    grew = True
            if not grew:
                break
        return W


    def may_reach(self, effect, within_prefix=None):
        """local fn keys (named parents included) from which a member of `effect` is reachable in the call graph"""
        seeds = set()
        for k, v in self.calls.items():
            for c in v["calls"]:
                if c.get("cleanup"):
                    continue
                if c["callee"] in effect or (c.get("resolved") in effect):
                    seeds.add(k)
        out = self.callers_closure(seeds)
        out |= {named_parent(k) for k in out}
        if within_prefix:
            out = {k for k in out if k.startswith(within_prefix)}
        return out
