"""Small symbolic evaluator over typed HIR for boolean-valued code that touches its inputs only
through comparisons (A10).  Produces formulas:

  ('cmp', op, a, b) ('and', f, g) ('or', f, g) ('not', f) ('const', bool) ('atom', name)
  ('conv', key, f_if_convertible, f_default)   value conversion / presence test (as_i64().map(..).unwrap_or(d),
                                               if let Some(..) = .. { } else { })
  ('tmatch', scrut_symbol, {Variant: f}, f_default)   match over the variants of a value enum
  ('call', fn_path, [arg symbols])             call of another boolean helper (inlined by `inline`)

Anything outside the recognised shapes raises Unsupported: the rule then fails closed."""
import itertools

from . import hir as H


class Unsupported(Exception):
    pass


CONV_METHODS = {"as_i64", "as_f64", "as_str", "as_u64", "as_bool"}


class Env:
    def __init__(self, m=None):
        self.m = dict(m or {})

    def bind(self, name, sym):
        e = Env(self.m)
        e.m[name] = sym
        return e

    def get(self, name):
        return self.m.get(name, name)


def sym_of(e, env):
    """symbol (string) for an operand expression"""
    e = H.strip(e)
    if not isinstance(e, dict):
        raise Unsupported(e)
    k = e.get("k")
    if k == "local":
        return env.get(e["name"])
    if k == "field":
        return "%s.%s" % (sym_of(e["e"], env), e["name"])
    if k == "lit":
        return "lit:%s" % (e["v"],)
    if k == "def":
        return e["path"]
    if k == "mcall" and not e["args"] and e["name"] in CONV_METHODS:
        return sym_of(e["recv"], env)
    if k == "mcall" and not e["args"]:
        return "%s.%s()" % (sym_of(e["recv"], env), e["name"])
    if k == "cast":
        return sym_of(e["a"], env)
    raise Unsupported(e)


def _conv_recv(e):
    """e = X.as_i64() -> X, else None"""
    while isinstance(e, dict) and (e.get("k") == "ref" or (e.get("k") == "un" and e["op"] == "*") or
                                   (e.get("k") == "block" and not e["stmts"] and e.get("tail") is not None)):
        e = e["a"] if e.get("k") != "block" else e["tail"]
    if isinstance(e, dict) and e.get("k") == "mcall" and e["name"] in CONV_METHODS and not e["args"]:
        return e["recv"]
    return None


def _bind_pat(pat, sym, env):
    """bind a (possibly nested Some(..) / tuple / variant) pattern's single binding to sym"""
    k = pat.get("k")
    if k == "pbind":
        return env.bind(pat["name"], sym)
    if k == "pref":
        return _bind_pat(pat["sub"], sym, env)
    if k == "ptuplestruct" and len(pat["subs"]) == 1:
        return _bind_pat(pat["subs"][0], sym, env)
    if k == "pwild":
        return env
    raise Unsupported(pat)


def evalb(e, env, self_fns=()):
    """boolean formula of expression e"""
    if not isinstance(e, dict):
        raise Unsupported(e)
    k = e.get("k")
    if k == "block":
        env2 = env
        for st in e["stmts"]:
            if st.get("k") == "slet" and st.get("init") is not None and st["pat"].get("k") == "pbind":
                try:
                    env2 = env2.bind(st["pat"]["name"], sym_of(st["init"], env2))
                except Unsupported:
                    # a let-bound boolean
                    env2 = env2.bind(st["pat"]["name"], ("F", evalb(st["init"], env2, self_fns)))
            elif st.get("k") == "macro":
                continue
            else:
                raise Unsupported(st)
        if e.get("tail") is None:
            raise Unsupported(e)
        return evalb(e["tail"], env2, self_fns)
    if k == "lit" and e["t"] == "bool":
        return ("const", bool(e["v"]))
    if k == "un" and e["op"] == "!":
        return ("not", evalb(e["a"], env, self_fns))
    if k in ("ref",) or (k == "un" and e["op"] == "*"):
        return evalb(e["a"], env, self_fns)
    if k == "local":
        v = env.get(e["name"])
        if isinstance(v, tuple) and v[0] == "F":
            return v[1]
        return ("atom", v)
    if k == "bin":
        op = e["op"]
        if op == "&&":
            return ("and", evalb(e["a"], env, self_fns), evalb(e["b"], env, self_fns))
        if op == "||":
            return ("or", evalb(e["a"], env, self_fns), evalb(e["b"], env, self_fns))
        if op in H.CMP:
            return ("cmp", op, sym_of(e["a"], env), sym_of(e["b"], env))
        raise Unsupported(e)
    if k == "if":
        c = e["cond"]
        if c.get("k") == "let":
            # if let PAT = INIT { T } else { D }
            init = H.strip(c["init"])
            pat = c["pat"]
            els = evalb(e["els"], env, self_fns) if e.get("els") is not None else None
            if els is None:
                raise Unsupported(e)
            if init.get("k") == "tup" and pat.get("k") == "ptuple":
                env2 = env
                keys = []
                for sub, ie in zip(pat["subs"], init["es"]):
                    r = _conv_recv(ie)
                    if r is None:
                        raise Unsupported(ie)
                    s = sym_of(r, env)
                    keys.append(s)
                    env2 = _bind_pat(sub, s, env2)
                return ("conv", tuple(keys), evalb(e["then"], env2, self_fns), els)
            r = _conv_recv(init)
            if r is not None:
                s = sym_of(r, env)
                return ("conv", (s,), evalb(e["then"], _bind_pat(pat, s, env), self_fns), els)
            # presence test: if let Some(x) = map.get(key)
            if init.get("k") == "mcall" and init["name"] in ("get", "get_mut", "as_ref", "as_deref", "cloned", "first", "last"):
                s = "%s[%s]" % (sym_of(init["recv"], env), ",".join(_safe_sym(a, env) for a in init["args"]))
                b = H.pat_bindings(pat)
                env2 = env.bind(b[0], b[0]) if b else env
                return ("conv", ("present:" + s,), evalb(e["then"], env2, self_fns), els)
            raise Unsupported(e)
        if e.get("els") is None:
            raise Unsupported(e)
        cf = evalb(c, env, self_fns)
        return ("or", ("and", cf, evalb(e["then"], env, self_fns)), ("and", ("not", cf), evalb(e["els"], env, self_fns)))
    if k == "mcall":
        n = e["name"]
        if n in ("unwrap_or", "map_or", "is_some_and", "is_ok_and") :
            # X.as_t().map(|v| BODY).unwrap_or(D)   |   X.as_t().map_or(D, |v| BODY)
            if n == "unwrap_or":
                inner = H.strip(e["recv"])
                d = evalb(e["args"][0], env, self_fns)
                if inner.get("k") == "mcall" and inner["name"] == "map" and inner["args"][0].get("k") == "closure":
                    clo = inner["args"][0]
                    src = inner["recv"]
                else:
                    raise Unsupported(e)
            elif n == "map_or":
                d = evalb(e["args"][0], env, self_fns)
                clo = e["args"][1]
                src = e["recv"]
            else:
                d = ("const", False)
                clo = e["args"][0]
                src = e["recv"]
            r = _conv_recv(src)
            if r is None or clo.get("k") != "closure":
                raise Unsupported(e)
            s = sym_of(r, env)
            env2 = _bind_pat(clo["params"][0], s, env)
            return ("conv", (s,), evalb(clo["body"], env2, self_fns), d)
        if n in ("any", "all") and e["args"] and e["args"][0].get("k") == "closure":
            clo = e["args"][0]
            coll = H.strip(e["recv"])
            while coll.get("k") == "mcall" and coll["name"] in ("iter", "into_iter", "values", "keys"):
                coll = H.strip(coll["recv"])
            s = sym_of(coll, env)
            env2 = _bind_pat(clo["params"][0], "elem(%s)" % s, env)
            return (n, s, evalb(clo["body"], env2, self_fns))
        if n in ("lt", "le", "gt", "ge", "eq", "ne") and len(e["args"]) == 1:
            op = {"lt": "<", "le": "<=", "gt": ">", "ge": ">=", "eq": "==", "ne": "!="}[n]
            return ("cmp", op, sym_of(e["recv"], env), sym_of(e["args"][0], env))
        if e.get("def") in self_fns:
            return ("call", e["def"], [_safe_sym(e["recv"], env)] + [_safe_sym(a, env) for a in e["args"]])
        if n == "is_empty" and not e["args"]:
            return ("atom", "%s.is_empty()" % _safe_sym(e["recv"], env))
        raise Unsupported(e)
    if k == "call":
        p = H.path_of(e["f"])
        if p in self_fns:
            return ("call", p, [_safe_sym(a, env) for a in e["args"]])
        raise Unsupported(e)
    if k == "match":
        scr = sym_of(e["scrut"], env)
        arms = {}
        default = None
        for arm in e["arms"]:
            if arm.get("guard") is not None:
                raise Unsupported(arm)
            for alt in H.pat_alts(arm["pat"]):
                a = alt
                while a.get("k") == "pref":
                    a = a["sub"]
                if a.get("k") in ("pwild", "pbind") and not a.get("sub"):
                    env2 = env.bind(a["name"], scr) if a.get("k") == "pbind" else env
                    default = evalb(arm["body"], env2, self_fns)
                    continue
                vp = H.pat_path(a)
                if vp is None:
                    raise Unsupported(a)
                env2 = env
                if a.get("k") == "ptuplestruct":
                    if len(a["subs"]) == 1:
                        env2 = _bind_pat(a["subs"][0], scr, env)
                    else:
                        for i, s in enumerate(a["subs"]):
                            if s.get("k") != "pwild":
                                env2 = _bind_pat(s, "%s.%d" % (scr, i), env2)
                arms[vp.rsplit("::", 1)[-1]] = evalb(arm["body"], env2, self_fns)
        return ("tmatch", scr, arms, default)
    if k == "macro":
        raise Unsupported(e)
    raise Unsupported(e)


def _safe_sym(e, env):
    try:
        return sym_of(e, env)
    except Unsupported:
        return "?"


def subst(f, m):
    """rename symbols"""
    t = f[0]
    r = lambda s: m.get(s, s)
    if t == "cmp":
        return ("cmp", f[1], r(f[2]), r(f[3]))
    if t in ("and", "or"):
        return (t, subst(f[1], m), subst(f[2], m))
    if t == "not":
        return ("not", subst(f[1], m))
    if t == "conv":
        return ("conv", tuple(r(x) for x in f[1]), subst(f[2], m), subst(f[3], m))
    if t == "tmatch":
        return ("tmatch", r(f[1]), {k: subst(v, m) for k, v in f[2].items()}, subst(f[3], m) if f[3] is not None else None)
    if t == "call":
        return ("call", f[1], [r(x) for x in f[2]])
    if t in ("any", "all"):
        return (t, r(f[1]), subst(f[2], m))
    if t == "atom":
        return ("atom", r(f[1]))
    return f


def inline(f, summaries):
    """replace ('call', fn, args) by the callee's summary (params, formula) with arguments substituted"""
    t = f[0]
    if t == "call":
        if f[1] not in summaries:
            raise Unsupported(f)
        params, body = summaries[f[1]]
        return inline(subst(body, dict(zip(params, f[2]))), summaries)
    if t in ("and", "or"):
        return (t, inline(f[1], summaries), inline(f[2], summaries))
    if t == "not":
        return ("not", inline(f[1], summaries))
    if t == "conv":
        return ("conv", f[1], inline(f[2], summaries), inline(f[3], summaries))
    if t == "tmatch":
        return ("tmatch", f[1], {k: inline(v, summaries) for k, v in f[2].items()}, inline(f[3], summaries) if f[3] is not None else None)
    if t in ("any", "all"):
        return (t, f[1], inline(f[2], summaries))
    return f


def conv_nodes(f, acc=None):
    acc = acc if acc is not None else []
    t = f[0]
    if t == "conv":
        acc.append(f)
        conv_nodes(f[2], acc)
        conv_nodes(f[3], acc)
    elif t in ("and", "or"):
        conv_nodes(f[1], acc)
        conv_nodes(f[2], acc)
    elif t == "not":
        conv_nodes(f[1], acc)
    elif t in ("any", "all"):
        conv_nodes(f[2], acc)
    elif t == "tmatch":
        for v in f[2].values():
            conv_nodes(v, acc)
        if f[3] is not None:
            conv_nodes(f[3], acc)
    return acc


def resolve(f, variant_of, conv_choice):
    """specialise: variant_of(symbol) -> variant name for tmatch; conv_choice(keys) -> True (convertible) / False"""
    t = f[0]
    if t == "tmatch":
        v = variant_of(f[1])
        sub = f[2].get(v, f[3])
        if sub is None:
            raise Unsupported(("no arm", f[1], v))
        return resolve(sub, variant_of, conv_choice)
    if t == "conv":
        return resolve(f[2] if conv_choice(f[1]) else f[3], variant_of, conv_choice)
    if t in ("and", "or"):
        return (t, resolve(f[1], variant_of, conv_choice), resolve(f[2], variant_of, conv_choice))
    if t == "not":
        return ("not", resolve(f[1], variant_of, conv_choice))
    if t in ("any", "all"):
        return (t, f[1], resolve(f[2], variant_of, conv_choice))
    return f


def conv_keys(f):
    out = []
    for c in conv_nodes(f):
        if c[1] not in out:
            out.append(c[1])
    return out


def evaluate(f, rank, atoms=None):
    """evaluate a resolved formula under an ordering; any/all are evaluated on their witness element
    (the symbol elem(<coll>) must be ranked)"""
    t = f[0]
    if t == "cmp":
        a, b = rank[f[2]], rank[f[3]]
        return {"<": a < b, "<=": a <= b, ">": a > b, ">=": a >= b, "==": a == b, "!=": a != b}[f[1]]
    if t == "and":
        return evaluate(f[1], rank, atoms) and evaluate(f[2], rank, atoms)
    if t == "or":
        return evaluate(f[1], rank, atoms) or evaluate(f[2], rank, atoms)
    if t == "not":
        return not evaluate(f[1], rank, atoms)
    if t == "const":
        return f[1]
    if t in ("any", "all"):
        return evaluate(f[2], rank, atoms)
    if t == "atom":
        return (atoms or {})[f[1]]
    raise Unsupported(f)


def syms(f, acc=None):
    acc = acc if acc is not None else []
    t = f[0]
    if t == "cmp":
        for s in (f[2], f[3]):
            if s not in acc:
                acc.append(s)
    elif t in ("and", "or"):
        syms(f[1], acc)
        syms(f[2], acc)
    elif t == "not":
        syms(f[1], acc)
    elif t in ("any", "all"):
        syms(f[2], acc)
    return acc


def atoms_of(f, acc=None):
    acc = acc if acc is not None else []
    t = f[0]
    if t == "atom":
        if f[1] not in acc:
            acc.append(f[1])
    elif t in ("and", "or"):
        atoms_of(f[1], acc)
        atoms_of(f[2], acc)
    elif t == "not":
        atoms_of(f[1], acc)
    elif t in ("any", "all"):
        atoms_of(f[2], acc)
    return acc


def show(f):
    t = f[0]
    if t == "cmp":
        return "%s %s %s" % (f[2], f[1], f[3])
    if t in ("and", "or"):
        return "(%s %s %s)" % (show(f[1]), "&&" if t == "and" else "||", show(f[2]))
    if t == "not":
        return "!" + show(f[1])
    if t == "const":
        return str(f[1]).lower()
    if t == "atom":
        return f[1]
    if t in ("any", "all"):
        return "%s(%s: %s)" % (t, f[1], show(f[2]))
    if t == "conv":
        return "conv%s{%s | %s}" % (list(f[1]), show(f[2]), show(f[3]))
    if t == "tmatch":
        return "match %s {%s; _: %s}" % (f[1], "; ".join("%s: %s" % (k, show(v)) for k, v in f[2].items()), show(f[3]) if f[3] else "-")
    if t == "call":
        return "%s(%s)" % (f[1].rsplit("::", 1)[-1], ", ".join(f[2]))
    return str(f)
