"""C01 Acknowledged writes survive crashes and storage faults.
Decided: the ordering / provenance skeleton of write, flush and recovery.  Not decided: loss vs
duplicates under arbitrary crash and fault sequences, OS fsync semantics."""
from engine import mir as M
from engine.core import rule
from engine.program import named_parent

I = "ingester::Ingester::"
WAL = "ingester::wal::WriteAheadLog::"
BUF = "ingester::buffer::WriteBuffer::"
# WriteBuffer methods that do not put batches (back) into the buffer
BUF_NOT_INSERT = {"take", "clear", "is_empty", "size_bytes", "row_count", "batch_count", "schema_compatible", "new", "len", "schema"}


def _wal_none_edges(b):
    """edges on which `self.wal` was found to be None"""
    out = set()
    for ab in M.find_calls(b, lambda c: c == "std::option::Option::<T>::as_ref"):
        t = b.term(ab)
        if M.has_field(M.operand_origins(b, t["args"][0], at=(ab, M.T)), None, ".wal"):
            s, f = M.outcome_edges(b, ab)
            out |= f
    return out


@rule("C01", "R1", "WAL before buffer before ack: every call that buffers an incoming batch is dominated by the success edge of "
      "WriteAheadLog::append (or by the edge on which no WAL is configured); only the write path and recovery put batches into the buffer")
def r1(cx):
    prog = cx.prog
    sites = prog.sites(lambda c: c == I + "append_to_buffer_and_maybe_flush")
    cx.floor("callers of append_to_buffer_and_maybe_flush", len(sites), 2)
    for k, c in sites:
        b = cx.body(k)
        E = set(_wal_none_edges(b))
        wal_sites = M.find_calls(b, lambda x: x == WAL + "append")
        for wb in wal_sites:
            s, f = M.outcome_edges(b, wb)
            E |= s
        inst = "buffer-after-wal"
        if not wal_sites:
            cx.violation(k, inst, "%s: %s buffers a batch but never appends it to the WAL" % (c["sp"], named_parent(k)), [c["sp"]])
        elif b.dominated_by_edges(c["b"], E):
            # same batch
            wo = set()
            for wb in wal_sites:
                wo |= M.operand_origins(b, b.term(wb)["args"][1], at=(wb, M.T))
            bo = M.operand_origins(b, b.term(c["b"])["args"][1], at=(c["b"], M.T))
            common = {(o[0], o[1]) for o in wo if o[0] in ("upvar", "arg")} & {(o[0], o[1]) for o in bo if o[0] in ("upvar", "arg")}
            if common:
                cx.passed(k, inst, [c["sp"]] + [b.sp(w) for w in wal_sites], "dominated by WAL append success / no-WAL edge; same batch %s" % sorted(common))
            else:
                cx.violation(k, inst + ":same-batch", "%s: the batch appended to the WAL is not the batch that is buffered" % c["sp"], [c["sp"]])
        else:
            path = b.path(0, c["b"], removed_edges=E)
            cx.violation(k, inst, "%s: the batch can be buffered (and the write acknowledged) without a successful WAL append: a crash after the ack loses it"
                         % c["sp"], [c["sp"]] + [b.sp(x) for x in (path or [])[-3:]])
    # who may insert into the buffer
    allowed = {I + "append_to_buffer_and_maybe_flush", I + "ensure_wal"}
    for k, c in prog.sites(lambda c: c.startswith(BUF) and c[len(BUF):] not in BUF_NOT_INSERT):
        p = named_parent(k)
        if p in allowed or p.startswith("ingester::buffer::"):
            cx.passed(k, "buffer-insert:%s" % c["callee"][len(BUF):], [c["sp"]])
        else:
            cx.violation(k, "buffer-insert:%s" % c["callee"][len(BUF):], "%s: %s puts batches into the write buffer outside the WAL-protected write path" % (c["sp"], p), [c["sp"]])
    # the ack (Ok exit of the write bodies) is after the buffering
    for k, c in sites:
        b = cx.body(k)
        s, f = M.outcome_edges(b, c["b"])
        exits = [e for e in M.exit_defs(b) if e[2] == "ok"]
        bad = [e for e in exits if not b.dominated_by_edges(e[0], s)]
        if bad or not exits or not s:
            cx.violation(k, "ack-after-buffer", "%s: %s can return Ok without the batch having been buffered successfully" % (
                b.sp(bad[0][0], bad[0][1]) if bad else c["sp"], named_parent(k)), [c["sp"]])
        else:
            cx.passed(k, "ack-after-buffer", [c["sp"]])


@rule("C01", "R2", "durable before return under every-write sync: append_payload propagates both write_all results, and on the "
      "WalSyncMode::EveryWrite edge a successful sync_current (-> File::sync_data) precedes Ok(seq)")
def r2(cx):
    ck, b = cx.need_body(WAL + "append_payload")
    exits = [e for e in M.exit_defs(b) if e[2] != "err"]
    ws = M.find_calls(b, lambda c: c.endswith("AsyncWriteExt::write_all"))
    cx.floor("write_all calls in append_payload", len(ws), 2, ck)
    for i, wb in enumerate(ws):
        s, f = M.outcome_edges(b, wb)
        if s and all(b.dominated_by_edges(e[0], s) for e in exits):
            cx.passed(ck, "write_all#%d-propagated" % i, [b.sp(wb)])
        else:
            cx.violation(ck, "write_all#%d-propagated" % i, "%s: append_payload can return Ok although this write failed or its result was ignored" % b.sp(wb), [b.sp(wb)])
    # the sync-mode switch
    sw = None
    for bi, blk in enumerate(b.blocks):
        t = blk["term"]
        if t["k"] == "switch" and (t.get("enum") or "").endswith("WalSyncMode") and not blk.get("cleanup"):
            sw = (bi, t)
    if sw is None:
        cx.violation(ck, "every-write-syncs", "append_payload no longer branches on the sync mode", [])
        return
    bi, t = sw
    non_every = set()
    has_every = False
    for n, tg in zip(t["variants"], t["targets"]):
        if n == "EveryWrite":
            has_every = True
        else:
            non_every.add((bi, tg))
    if "EveryWrite" not in (t["variants"] or []):
        # EveryWrite goes through `otherwise`
        pass
    else:
        non_every.add((bi, t["otherwise"])) if t["otherwise"] not in [tg for n, tg in zip(t["variants"], t["targets"]) if n == "EveryWrite"] else None
    syncs = M.find_calls(b, lambda c: c == WAL + "sync_current")
    E = set(non_every)
    for sb in syncs:
        s, f = M.outcome_edges(b, sb)
        E |= s
    if has_every and syncs and all(b.dominated_by_edges(e[0], E) for e in exits):
        cx.passed(ck, "every-write-syncs", [b.sp(bi)] + [b.sp(s) for s in syncs])
    else:
        cx.violation(ck, "every-write-syncs", "%s: with WalSyncMode::EveryWrite append_payload can return Ok(seq) without a successful sync_current" % b.sp(bi), [b.sp(bi)])
    sk, sb_ = cx.need_body(WAL + "sync_current")
    sd = M.find_calls(sb_, lambda c: c.endswith("fs::File::sync_data") or c.endswith("fs::File::sync_all"))
    E = set()
    for x in sd:
        s, f = M.outcome_edges(sb_, x)
        E |= s
    sx = [e for e in M.exit_defs(sb_) if e[2] != "err"]
    if sd and E and all(sb_.dominated_by_edges(e[0], E) for e in sx):
        cx.passed(sk, "sync_current-syncs", [sb_.sp(sd[0])])
    else:
        cx.violation(sk, "sync_current-syncs", "sync_current can return Ok without a successful File::sync_data", [])


FLUSH = I + "flush_batches"


def _flush_effects(b):
    put = M.find_calls(b, lambda c: c == "object_store::ObjectStore::put")
    reg = M.find_calls(b, lambda c: c == "metadata::client::MetadataClient::register_chunk")
    return put, reg


@rule("C01", "R3", "flush order: WAL truncation, the in-memory and the persisted flushed mark are all dominated by the success edges of "
      "the chunk upload and of its registration; registration is dominated by the upload")
def r3(cx):
    ck, b = cx.need_body(FLUSH)
    put, reg = _flush_effects(b)
    if not cx.floor("ObjectStore::put in flush_batches", len(put), 1, ck) or not cx.floor("register_chunk in flush_batches", len(reg), 1, ck):
        return
    ps, rs = set(), set()
    for x in put:
        ps |= M.outcome_edges(b, x)[0]
    for x in reg:
        rs |= M.outcome_edges(b, x)[0]
    sinks = []
    for x in M.find_calls(b, lambda c: c == WAL + "truncate_before"):
        sinks.append(("truncate_before", x))
    for x in M.find_calls(b, lambda c: c == "ingester::wal::persist_flushed_seq"):
        sinks.append(("persist_flushed_seq", x))
    def _stores_mark(body):
        return [x for x in M.find_calls(body, lambda c: c.endswith("::store") and "atomic" in c)
                if M.has_field(M.operand_origins(body, body.term(x)["args"][0], at=(x, M.T)), None, ".last_flushed_seq")]
    for x in _stores_mark(b):
        sinks.append(("last_flushed_seq.store", x))
    kinds = {n for n, _ in sinks}
    # a local helper that may truncate / persist / advance the mark counts as that effect (extract-method refactors)
    eff = {"truncate_before": {WAL + "truncate_before"}, "persist_flushed_seq": {"ingester::wal::persist_flushed_seq"}}
    reach = {k: cx.prog.may_reach(v, within_prefix="ingester::Ingester::") for k, v in eff.items()}
    storers = set()
    for k in cx.prog.fn_keys(r"^ingester::Ingester::[a-z_0-9]+$"):
        hb = cx.prog.code_body(k)
        if hb is not None and k not in (FLUSH, I + "ensure_wal") and _stores_mark(hb):
            storers.add(k)
    reach["last_flushed_seq.store"] = cx.prog.callers_closure(storers) if storers else set()
    skip = {FLUSH, I + "ensure_wal"}
    for x in b.calls_blocks() if hasattr(b, "calls_blocks") else [bi for bi, _ in b.calls()]:
        cal = b.term(x)["callee"]
        if "::{closure" in cal or cal in skip or not cal.startswith("ingester::Ingester::"):
            continue
        ks = sorted(k for k, s in reach.items() if cal in s)
        if ks:
            sinks.append(("helper:" + cal.rsplit("::", 1)[1], x))
            kinds |= set(ks)
    cx.floor("flushed-mark effects reached from flush_batches (truncate, persist, in-memory mark)", len(kinds & {"truncate_before", "persist_flushed_seq", "last_flushed_seq.store"}), 3, ck)
    for name, x in sinks:
        okp = ps and b.dominated_by_edges(x, ps)
        okr = rs and b.dominated_by_edges(x, rs)
        if okp and okr:
            cx.passed(ck, "after-upload-and-registration:%s" % name, [b.sp(x)])
        else:
            cx.violation(ck, "after-upload-and-registration:%s" % name,
                         "%s: %s can run before the chunk was %s: a crash in between loses the flushed rows (WAL entries gone, chunk not in the catalog)"
                         % (b.sp(x), name, "uploaded" if not okp else "registered"), [b.sp(x)])
    for x in reg:
        if ps and b.dominated_by_edges(x, ps):
            cx.passed(ck, "register-after-upload", [b.sp(x)])
        else:
            cx.violation(ck, "register-after-upload", "%s: a chunk can be registered although its upload failed or did not happen" % b.sp(x), [b.sp(x)])
    # Ok exit only after both
    exits = [e for e in M.exit_defs(b) if e[2] != "err"]
    # the empty-input early return is the only Ok exit allowed before the upload
    early = []
    late = []
    for e in exits:
        (late if b.dominated_by_edges(e[0], ps) and b.dominated_by_edges(e[0], rs) else early).append(e)
    empties = M.find_calls(b, lambda c: c == "std::vec::Vec::<T, A>::is_empty")
    ee = set()
    for sw in M.bool_switches(b):
        r = sw["root"]
        if r and r[2] == "call" and r[3]["callee"] == "std::vec::Vec::<T, A>::is_empty":
            ee.add(sw["true_edge"])
    bad = [e for e in early if not (ee and b.dominated_by_edges(e[0], ee))]
    if bad:
        cx.violation(ck, "ok-after-upload-and-registration", "%s: flush_batches can return Ok for a non-empty input without uploading and registering it" % b.sp(bad[0][0], bad[0][1]),
                     [b.sp(bad[0][0], bad[0][1])])
    else:
        cx.passed(ck, "ok-after-upload-and-registration", [b.sp(e[0], e[1]) for e in late[:2]])


@rule("C01", "R4", "the flushed mark describes the flushed batches: the value given to truncate_before / persist_flushed_seq must not be a "
      "load of the shared last_wal_seq atomic, which concurrent writers advance after their WAL append and before they reach the buffer")
def r4(cx):
    ck, b = cx.need_body(FLUSH)
    for name, pred, ai in (("truncate_before", lambda c: c == WAL + "truncate_before", 1),
                           ("persist_flushed_seq", lambda c: c == "ingester::wal::persist_flushed_seq", 1)):
        for x in M.find_calls(b, pred):
            org = M.operand_origins(b, b.term(x)["args"][ai], at=(x, M.T), adapters=M.PURE_ADAPTERS - {"std::ops::Deref::deref"})
            loads = [o for o in org if o[0] == "call" and o[1][1].endswith("::load") and "atomic" in o[1][1]]
            shared = False
            for o in loads:
                lt = b.term(o[1][0])
                if M.has_field(M.operand_origins(b, lt["args"][0], at=(o[1][0], M.T)), None, ".last_wal_seq"):
                    shared = True
            if shared:
                cx.violation(ck, "flushed-mark-from-shared-atomic:%s" % name,
                             "%s: the mark passed to %s is last_wal_seq.load() taken after the upload; a writer acknowledged between this flush's take() and the load "
                             "is covered by the mark although its rows are only in memory (lost on crash)" % (b.sp(x), name), [b.sp(x)])
            else:
                cx.passed(ck, "flushed-mark-from-shared-atomic:%s" % name, [b.sp(x)])


@rule("C01", "R5", "a failed flush gives the batches back: at every site that hands the result of WriteBuffer::take to flush_batches, the "
      "failure path re-inserts those batches (in the caller or inside flush_batches before its Err exits)")
def r5(cx):
    prog = cx.prog
    fk, fb = cx.need_body(FLUSH)
    # (b) inside flush_batches: every Err exit preceded by a re-insert
    reins_in_flush = M.find_calls(fb, lambda c: c.startswith(BUF) and c[len(BUF):] not in BUF_NOT_INSERT)
    inside_ok = False
    if reins_in_flush:
        errs = [e for e in M.exit_defs(fb) if e[2] == "err"]
        inside_ok = all(fb.dominated_by_blocks(e[0], set(reins_in_flush)) for e in errs)
    sites = prog.sites(lambda c: c == FLUSH)
    cx.floor("flush_batches call sites", len(sites), 5)
    per_fn = {}
    for k, c in sorted(sites, key=lambda x: (x[0], x[1]["b"])):
        b = cx.body(k)
        n = per_fn.get(named_parent(k), 0)
        per_fn[named_parent(k)] = n + 1
        inst = "failed-flush-drops-batches@%d" % n
        ao = M.operand_origins(b, b.term(c["b"])["args"][1], at=(c["b"], M.T))
        if not M.has_call(ao, lambda x: x == BUF + "take"):
            cx.passed(k, inst, [c["sp"]], "argument does not come from WriteBuffer::take")
            continue
        if inside_ok:
            cx.passed(k, inst, [c["sp"]], "flush_batches re-inserts before every Err exit")
            continue
        s, f = M.outcome_edges(b, c["b"])
        reins = set(M.find_calls(b, lambda x: x.startswith(BUF) and x[len(BUF):] not in BUF_NOT_INSERT))
        # recovery is different: the WAL handle is installed only after the replay (R6) and the persisted mark moves only on a successful flush, so a flush failure that
        # ABORTS ensure_wal loses nothing - the entries are still in the WAL and the next start replays them.  It must abort, though: carrying on drops the batches for good.
        if named_parent(k) == I + "ensure_wal" and f:
            nonerr = {e[0] for e in M.exit_defs(b) if e[2] != "err"}
            carries_on = False
            for e in f:
                reach = b.reachable(e[1]) | {e[1]}
                if (nonerr & reach) or c["b"] in reach:
                    carries_on = True
            if not carries_on:
                cx.passed(k, inst, [c["sp"]], "recovery aborts on a failed flush: nothing is installed, the entries stay in the WAL and are replayed by the next start")
                continue
            cx.violation(k, inst, "%s: recovery carries on after this flush failed: the batches taken from the buffer are dropped, recovery still finishes with last_wal_seq covering their "
                         "entries, and the next successful flush moves the persisted mark past them" % c["sp"], [c["sp"]])
            continue
        ok = False
        if f and reins:
            # every path from a failure edge to an exit / next iteration passes a re-insert
            ok = True
            for e in f:
                reach = b.reachable(e[1], removed_blocks=reins)
                # reaching any return-bearing block without a re-insert
                if any(b.term(x)["k"] == "return" for x in reach) or c["b"] in reach:
                    ok = False
        if ok:
            cx.passed(k, inst, [c["sp"]], "failure path re-inserts the batches")
        else:
            cx.violation(k, inst, "%s: when this flush fails the batches taken from the buffer are dropped; their WAL entries are later covered by the flushed mark of "
                         "the next successful flush and are never replayed" % c["sp"], [c["sp"]])


@rule("C01", "R6", "recovery replays everything newer than the mark: read_entries_after receives load_flushed_seq's result, decoded batches reach "
      "WriteBuffer::append, the WAL is installed only after the replay; the ingester binary runs ensure_wal before it serves")
def r6(cx):
    ck, b = cx.need_body(I + "ensure_wal")
    reads = M.find_calls(b, lambda c: c == WAL + "read_entries_after")
    if not cx.floor("read_entries_after in ensure_wal", len(reads), 1, ck):
        return
    for rb in reads:
        org = M.operand_origins(b, b.term(rb)["args"][1], at=(rb, M.T))
        if M.has_call(org, lambda c: c == "ingester::wal::load_flushed_seq") and not any(o[0] in ("const", "bin") for o in org):
            cx.passed(ck, "replay-from-flushed-mark", [b.sp(rb)])
        else:
            cx.violation(ck, "replay-from-flushed-mark", "%s: recovery does not replay from exactly the persisted flushed mark (origins: %s)" % (
                b.sp(rb), sorted(str(o[1]) for o in org if o[0] in ("const", "call", "bin"))[:4]), [b.sp(rb)])
    apps = M.find_calls(b, lambda c: c == BUF + "append")
    okapp = False
    for ab in apps:
        org = M.operand_origins(b, b.term(ab)["args"][1], at=(ab, M.T),
                                adapters=M.PURE_ADAPTERS | {"ingester::wal::WalEntry::batches", "std::option::Option::<T>::take", "std::option::Option::<T>::ok_or_else"})
        if M.has_call(org, lambda c: c == WAL + "read_entries_after"):
            okapp = True
    if okapp:
        cx.passed(ck, "replayed-batches-reach-buffer", [b.sp(a) for a in apps])
    else:
        cx.violation(ck, "replayed-batches-reach-buffer", "the batches decoded from the replayed WAL entries do not reach WriteBuffer::append", [b.sp(a) for a in apps])
    # the replay visits every entry: the loop around the append is left only when the walk over the read entries is exhausted, or towards an Err exit
    if apps:
        a0 = apps[0]
        fwd = b.reachable(a0)
        scc = {x for x in fwd if a0 in b.reachable(x)} | {a0}
        nexts = [x for x in sorted(scc) if b.term(x)["k"] == "call" and b.term(x)["callee"].endswith("::next")]
        entry_nexts = [n for n in nexts if M.has_call(M.operand_origins(b, b.term(n)["args"][0], at=(n, M.T), adapters=M.PURE_ADAPTERS | {"std::iter::IntoIterator::into_iter", "core::slice::<impl [T]>::iter"}),
                                                       lambda c: c == WAL + "read_entries_after")
                       and not M.has_call(M.operand_origins(b, b.term(n)["args"][0], at=(n, M.T), adapters=M.PURE_ADAPTERS | {"std::iter::IntoIterator::into_iter", "core::slice::<impl [T]>::iter"}),
                                          lambda c: c == "ingester::wal::WalEntry::batches")]
        if not entry_nexts:
            cx.violation(ck, "replay-visits-every-entry", "cannot find the walk over the entries read from the WAL around WriteBuffer::append (fail closed)", [b.sp(a0)])
        else:
            exhausted = set()
            for n in entry_nexts:
                exhausted |= M.outcome_edges(b, n)[1]
            nonerr = {e[0] for e in M.exit_defs(b) if e[2] != "err"}
            early = []
            for u in sorted(scc):
                if b.is_cleanup(u):
                    continue
                for v in b.succs(u):
                    if v in scc or b.is_cleanup(v) or (u, v) in exhausted or b.term(v)["k"] == "unreachable":
                        continue
                    if nonerr & (b.reachable(v) | {v}):
                        early.append((u, v))
            if early:
                cx.violation(ck, "replay-visits-every-entry", "%s: the replay loop can be left before the entries run out, and recovery still completes: the entries not replayed are in no "
                             "buffer, new writes get sequence numbers above them, and the next flush moves the persisted mark past them" % b.sp(early[0][0]), [b.sp(early[0][0])])
            else:
                cx.passed(ck, "replay-visits-every-entry", [b.sp(entry_nexts[0])])
    rs = set()
    for rb in reads:
        rs |= M.outcome_edges(b, rb)[0]
    inst = []
    for bi, blk in enumerate(b.blocks):
        if blk.get("cleanup"):
            continue
        for si, st in enumerate(blk["stmts"]):
            if M.pl_str(st["lhs"]).endswith(".wal") and st["lhs"].get("p"):
                inst.append((bi, si))
    if not inst:
        cx.violation(ck, "wal-installed-after-replay", "ensure_wal no longer installs the WAL (self.wal = ...)", [])
    elif all(b.dominated_by_edges(x[0], rs) for x in inst):
        cx.passed(ck, "wal-installed-after-replay", [b.sp(x[0], x[1]) for x in inst])
    else:
        cx.violation(ck, "wal-installed-after-replay", "%s: the WAL is made available to writers before the replay of unflushed entries" % b.sp(inst[0][0], inst[0][1]),
                     [b.sp(x[0], x[1]) for x in inst])
    # binary: ensure_wal before serving
    pa = cx.prog_all
    mk = "cardinalsin_ingester-bin::main::{closure#0}"
    mb = cx.body(mk, pa)
    if mb is None:
        cx.violation("<program>", "anchor-missing:ingester-main", "the ingester binary's main body was not found", [])
        return
    ew = M.find_calls(mb, lambda c: c.endswith("Ingester::ensure_wal"))
    E = set()
    for x in ew:
        E |= M.outcome_edges(mb, x)[0]
    serve = M.find_calls(mb, lambda c: c.endswith("api::build_http_router") or c.endswith("run_ingester_grpc_server") or c.endswith("TcpListener::bind"))
    cx.floor("serve points in the ingester binary", len(serve), 2, mk)
    for sb in serve:
        name = mb.term(sb)["callee"].rsplit("::", 1)[1]
        if E and mb.dominated_by_edges(sb, E):
            cx.passed(mk, "recover-before-serving:%s" % name, [mb.sp(sb)])
        else:
            cx.violation(mk, "recover-before-serving:%s" % name, "%s: the ingester can start serving before ensure_wal succeeded (acknowledged writes without WAL; unreplayed entries overtaken)" % mb.sp(sb), [mb.sp(sb)])


@rule("C01", "R7", "WAL truncation never removes an unflushed entry: truncate_before deletes a segment only where last_seq < seq (strict), "
      "and every caller passes the flushed mark or the mark + 1, nothing larger")
def r7(cx):
    ck, b = cx.need_body(WAL + "truncate_before")
    rms = M.find_calls(b, lambda c: c.endswith("fs::remove_file"))
    if not cx.floor("remove_file sites in truncate_before", len(rms), 1, ck):
        return
    last_seq = lambda o: M.has_call(o, lambda c: c == "ingester::wal::last_sequence_for_segment")
    seq_par = lambda o: any((x[0] == "upvar" and x[1] == "seq") or (x[0] == "arg" and x[1] == 2) for x in o)
    e, u = M.edges_implying(b, "lt", last_seq, seq_par)
    for rb in rms:
        if e and b.dominated_by_edges(rb, e):
            cx.passed(ck, "strictly-below-argument", [b.sp(rb)])
        else:
            cx.violation(ck, "strictly-below-argument", "%s: a segment whose last entry equals the argument can be deleted; recovery calls truncate_before(flushed + 1), "
                         "so the first unflushed entry's segment is removed right after its replay into memory" % b.sp(rb), [b.sp(rb)])
    truncate_callers(cx)


def truncate_callers(cx):
    """shared by C01.R7 and C05.R7: what callers may pass to truncate_before"""
    sites = cx.prog.sites(lambda c: c == WAL + "truncate_before")
    cx.floor("truncate_before call sites", len(sites), 2)
    for k, c in sites:
        bb = cx.body(k)
        org = M.operand_origins(bb, bb.term(c["b"])["args"][1], at=(c["b"], M.T))
        persisted = M.has_call(org, lambda x: x == "ingester::wal::load_flushed_seq")
        inmem = M.has_call(org, lambda x: x.endswith("::load") and "atomic" in x)
        consts = {o[1] for o in org if o[0] == "const"}
        bins = {o[1][2] for o in org if o[0] == "bin"}
        ok = (persisted or inmem) and consts <= {"1"} and bins <= {"Add", "AddWithOverflow"}
        if not ok:
            cx.violation(k, "argument-at-most-mark-plus-one", "%s: truncate_before receives something other than the flushed mark or mark + 1 (constants %s, operators %s)"
                         % (c["sp"], sorted(consts), sorted(bins)), [c["sp"]])
            continue
        if consts and not persisted:
            # mark + 1 removes the segment that holds the mark itself: only safe once that mark is on disk
            ps = set()
            for pb in M.find_calls(bb, lambda x: x == "ingester::wal::persist_flushed_seq"):
                ps |= M.outcome_edges(bb, pb)[0]
            if ps and bb.dominated_by_edges(c["b"], ps):
                cx.passed(k, "argument-at-most-mark-plus-one", [c["sp"]], "mark + 1 after the mark was persisted")
            else:
                cx.violation(k, "mark-plus-one-before-persist", "%s: truncate_before(mark + 1) deletes the segment holding the highest sequence number before that mark is "
                             "persisted; a crash in between leaves neither a surviving entry nor a current flushed file, and numbering restarts below acknowledged entries" % c["sp"], [c["sp"]])
            continue
        cx.passed(k, "argument-at-most-mark-plus-one", [c["sp"]], "mark%s" % (" + 1 (persisted mark)" if consts else ""))


MAXMIN = {"std::cmp::Ord::max", "std::cmp::Ord::min", "std::cmp::max", "std::cmp::min", "core::cmp::Ord::max", "core::cmp::Ord::min"}


@rule("C01", "R8", "recovery's watermark follows the buffer: in ensure_wal the value that reaches last_wal_seq.store may take an entry's sequence number "
      "only after that entry's batches were appended (no buffer append / flush reachable from the update within the same entry iteration)")
def r8(cx):
    ck, b = cx.need_body(I + "ensure_wal")
    stores = [x for x in M.find_calls(b, lambda c: c.endswith("::store") and "atomic" in c)
              if M.has_field(M.operand_origins(b, b.term(x)["args"][0], at=(x, M.T)), None, ".last_wal_seq")]
    if not cx.floor("last_wal_seq.store sites in ensure_wal", len(stores), 1, ck):
        return
    # locals carrying the watermark
    wm = set()
    for x in stores:
        a = b.term(x)["args"][1]
        if a["k"] in ("copy", "move"):
            wm.add(a["pl"]["l"])
    # follow copies backwards to user variables
    changed = True
    while changed:
        changed = False
        for l in list(wm):
            for (bi, si, k, pay) in b.defs().get(l, []):
                if k == "assign" and pay["rv"]["k"] == "use" and pay["rv"]["o"]["k"] in ("copy", "move") and not pay["rv"]["o"]["pl"].get("p"):
                    s = pay["rv"]["o"]["pl"]["l"]
                    if s not in wm and b.name_of(s) is not None:
                        wm.add(s)
                        changed = True
    # outer iteration over the replayed entries
    outer = []
    for nb in M.find_calls(b, lambda c: c == "std::iter::Iterator::next"):
        if M.has_call(M.operand_origins(b, b.term(nb)["args"][0], at=(nb, M.T)), lambda c: c == WAL + "read_entries_after"):
            org = M.operand_origins(b, b.term(nb)["args"][0], at=(nb, M.T), adapters=M.PURE_ADAPTERS - {"ingester::wal::WalEntry::batches"})
            if not M.has_call(org, lambda c: c == "ingester::wal::WalEntry::batches"):
                outer.append(nb)
    if not outer:
        cx.violation(ck, "anchor-missing:entry-loop", "cannot find the loop over the replayed WAL entries in ensure_wal", [])
        return
    sinks = set(M.find_calls(b, lambda c: c == BUF + "append" or c == FLUSH))
    n = 0
    is_entry_seq = lambda org: any(o[0] == "call" and o[1][1] == WAL + "read_entries_after" and M.strip_unwraps(o[2]).endswith(".seq") for o in org)
    for l in sorted(x for x in wm if b.name_of(x) is not None):
        for (bi, si, k, pay) in b.defs().get(l, []):
            if k == "assign":
                rv = pay["rv"]
                if rv["k"] == "use" and rv["o"]["k"] in ("copy", "move") and not rv["o"]["pl"].get("p") and rv["o"]["pl"]["l"] in wm:
                    continue  # plain copy between watermark locals
                org = set()
                for key in ("o", "a", "b"):
                    if key in rv and isinstance(rv[key], dict) and rv[key].get("k"):
                        org |= M.operand_origins(b, rv[key], at=(bi, si), adapters=M.PURE_ADAPTERS | MAXMIN)
            elif k == "call":
                org = set()
                for a in pay["args"]:
                    org |= M.operand_origins(b, a, at=(bi, M.T))
            else:
                continue
            if not is_entry_seq(org):
                continue
            n += 1
            reach = b.reachable(bi, removed_blocks=set(outer))
            hit = sorted(reach & sinks)
            if hit:
                cx.violation(ck, "watermark-before-append", "%s: the recovery watermark takes entry.seq before the entry's batches are buffered; the schema-change flush at %s then "
                             "persists a flushed mark covering an entry that exists only in memory" % (b.sp(bi, si), b.sp(hit[0])), [b.sp(bi, si), b.sp(hit[0])])
            else:
                cx.passed(ck, "watermark-before-append", [b.sp(bi, si)], "update is after the entry's appends")
    cx.floor("watermark updates from entry.seq", n, 1, ck)


@rule("C01", "R9", "the flush timer leaves nothing behind on shutdown: every way out of run_flush_timer's loop passes a take() of the buffer and a flush attempt of what it took")
def r9(cx):
    ck, b = cx.need_body(I + "run_flush_timer")
    flushes = M.find_calls(b, lambda c: c == FLUSH)
    takes = M.find_calls(b, lambda c: c == BUF + "take")
    rets = [bi for bi, blk in enumerate(b.blocks) if blk["term"]["k"] == "return" and not blk.get("cleanup")]
    if not cx.floor("flush sites in run_flush_timer", len(flushes), 1, ck):
        return
    empties = set()
    for sw in M.bool_switches(b):
        r = sw["root"]
        if r and r[2] == "call" and r[3]["callee"] == "std::vec::Vec::<T, A>::is_empty":
            if M.has_call(M.operand_origins(b, r[3]["args"][0], at=(r[0], M.T)), lambda c: c == BUF + "take"):
                empties.add(sw["true_edge"])
    bad = [r for r in rets if r in b.reachable(0, removed_blocks=set(flushes), removed_edges=empties)]
    tk_ok = all(b.dominated_by_blocks(r, set(takes)) for r in rets) if takes else False
    if not bad and tk_ok:
        cx.passed(ck, "shutdown-flushes-remaining-data", [b.sp(f) for f in flushes])
    else:
        cx.violation(ck, "shutdown-flushes-remaining-data", "run_flush_timer can return (shutdown) without taking the buffer and attempting to flush what it held: rows acknowledged with the WAL "
                     "disabled or not yet synced are dropped on a graceful shutdown", [b.sp(r) for r in bad[:2]])


@rule("C01", "R10", "what recovery can see is what was acknowledged: the WAL-reading rules of C05 that recovery of acknowledged rows depends on (the reader stops only at a bad record and "
      "counts only verified records into the valid prefix; open cuts the torn tail; numbering stays above the flushed mark and above every record on disk; replay walks every "
      "segment in order and keeps exactly the entries above the mark), evaluated for this property")
def r10(cx):
    import importlib
    m = importlib.import_module("rules.C05")
    ib = len(cx.instances)
    ob0, di0 = cx.obligations, cx.discharged
    for f in ("r1", "r3", "r4", "r8", "r9", "r10", "r11"):
        getattr(m, f)(cx)
    cx.obligations = ob0 + len(cx.instances[ib:])
    cx.discharged = di0 + len([i for i in cx.instances[ib:] if i["verdict"] == "holds"])
