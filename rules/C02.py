"""C02 Catalog mutations are atomic and never lost under concurrency.
Decided: the compare-and-swap discipline of metadata::s3 (who may write, the PUT is conditional on
the token, token and content come from the same read of the same retry iteration, success is only
reported after a successful conditional save, single-object reads)."""
import re

from engine import mir as M
from engine.core import rule
from engine.program import named_parent

S3 = "metadata::s3::ObjectStoreMetadataClient"
S3_TRAIT = "<metadata::s3::ObjectStoreMetadataClient as metadata::client::MetadataClient>::"
WRITE_RX = re.compile(r"^object_store::ObjectStore::(put|put_opts|put_multipart|put_multipart_opts|delete|delete_stream|rename|copy|copy_if_not_exists|rename_if_not_exists)$")
# maintenance helpers that rewrite legacy objects unconditionally; reviewed: reachable only from the
# repair binaries (rebuild-metadata, backfill-levels), never from a MetadataClient method
MAINT = {S3 + "::save_chunk_metadata_internal", S3 + "::save_time_index", S3 + "::save_chunk_metadata", S3 + "::rebuild_time_index"}
LOAD_RX = re.compile(r"ObjectStoreMetadataClient::load_\w+_with_etag$")
SAVE_RX = re.compile(r"ObjectStoreMetadataClient::atomic_save_\w+$")
# save helper -> index of the saved value argument whose content must come from the same load
VALUE_FROM_LOAD = {"atomic_save_catalog": 1, "atomic_save_compaction_jobs": 1, "atomic_save_leases": 1,
                   "atomic_save_split_states": 1, "atomic_save_chunk_metadata": 1, "atomic_save_time_index": 1}


def in_s3(key):
    return key.startswith("metadata::s3::") or key.startswith("<metadata::s3::")


@rule("C02", "R1", "single conditional writer: in metadata::s3 every object-store write is inside put_with_cas "
      "(or a reviewed maintenance helper that no MetadataClient method reaches)")
def r1(cx):
    prog = cx.prog
    sites = prog.sites(lambda c: bool(WRITE_RX.match(c)), within=[k for k in prog.calls if in_s3(k)])
    n_cas = 0
    for k, c in sites:
        parent = named_parent(k)
        cx.bodies_touched.add(k)
        if parent == S3 + "::put_with_cas":
            n_cas += 1
            cx.passed(k, "write:%s" % c["callee"].rsplit("::", 1)[1], [c["sp"]])
        elif parent in MAINT:
            cx.passed(k, "maintenance-write:%s" % c["callee"].rsplit("::", 1)[1], [c["sp"]])
        else:
            cx.violation(k, "unconditional-write:%s" % c["callee"].rsplit("::", 1)[1],
                         "%s: %s calls %s directly; catalog objects may only be written through the conditional put_with_cas (lost update under concurrency)"
                         % (c["sp"], parent, c["callee"]), [c["sp"]])
    cx.floor("conditional put_opts sites in put_with_cas", n_cas, 1)
    # save helpers go through put_with_cas
    helpers = set()
    for k, c in prog.sites(lambda c: c == S3 + "::put_with_cas"):
        helpers.add(named_parent(k))
    for h in sorted(helpers):
        cx.passed(h, "helper-uses-put_with_cas", [])
    cx.floor("atomic_save_* helpers calling put_with_cas", len([h for h in helpers if "atomic_save_" in h]), 7)
    # no trait method reaches a maintenance helper
    trait_methods = [k for k in prog.calls if k.startswith(S3_TRAIT) and "{closure" not in k]
    cx.floor("MetadataClient methods of the object-store backend", len(trait_methods), 25)
    for tm in trait_methods:
        reach = prog.reachable_from([tm])
        bad = sorted(reach & MAINT)
        if bad:
            path = prog.call_path(tm, bad[0])
            cx.violation(tm, "reaches-maintenance-writer:%s" % bad[0].rsplit("::", 1)[1],
                         "MetadataClient method %s reaches the unconditional writer %s via %s" % (tm, bad[0], " -> ".join(path or [])), [])
        else:
            cx.passed(tm, "no-unconditional-writer-reachable", [])
    # lib-internal callers of maintenance helpers stay inside the maintenance set
    for k, c in prog.sites(lambda c: c in MAINT):
        parent = named_parent(k)
        if parent not in MAINT:
            cx.violation(k, "maintenance-writer-called:%s" % c["callee"].rsplit("::", 1)[1],
                         "%s: %s calls the unconditional maintenance writer %s" % (c["sp"], parent, c["callee"]), [c["sp"]])


@rule("C02", "R2", "the PUT is conditional on the token: Create on the 'none' token, Update{e_tag: expected} otherwise; "
      "AlreadyExists/Precondition -> Conflict; Overwrite only under allow_unsafe_overwrite inside the not-supported arm")
def r2(cx):
    ck, b = cx.need_body(S3 + "::put_with_cas")
    puts = M.find_calls(b, lambda c: c == "object_store::ObjectStore::put_opts")
    if not cx.floor("put_opts calls in put_with_cas", len(puts), 1, ck):
        return
    modes = {}
    for (bi, si, st) in M.aggregates(b, lambda rv: rv.get("ak") == "adt" and rv.get("adt") == "object_store::PutMode"):
        modes.setdefault(st["rv"]["variant"], []).append((bi, si, st))
    # which modes reach which put
    first = None
    for pb in puts:
        t = b.term(pb)
        org = M.provenance(b, t["args"][3]["pl"]) if len(t["args"]) > 3 and t["args"][3]["k"] in ("copy", "move") else set()
        vs = set()
        for o in org:
            if o[0] == "agg" and isinstance(o[1], tuple) and str(o[1][2]).startswith("object_store::PutMode::"):
                vs.add(o[1][2].rsplit("::", 1)[1])
        # the mode field itself: only the explicit Create / Update aggregates may reach it (a whole-struct `PutOptions::default()`
        # or any other call yields PutMode::Overwrite without a PutMode aggregate appearing)
        if len(t["args"]) > 3 and t["args"][3]["k"] in ("copy", "move"):
            mo = M.provenance(b, {"l": t["args"][3]["pl"]["l"], "p": [{"f": 0, "n": "mode"}]}, at=(pb, M.T))
            foreign = sorted({o[1][1] for o in mo if o[0] == "call"})
            if foreign:
                vs.add("Overwrite" if any("default" in f.lower() for f in foreign) else "?")
                if "Overwrite" not in {x.rsplit("::", 1)[1] for x in [str(o[1][2]) for o in org if o[0] == "agg" and isinstance(o[1], tuple)] if x.startswith("object_store::PutMode::")}:
                    cx.violation(ck, "conditional-put-modes", "%s: the mode of the primary put_opts can come from %s (PutOptions' default mode is Overwrite): on that path the write is "
                                 "unconditional and silently replaces a concurrent commit" % (b.sp(pb), foreign), [b.sp(pb)])
                    first = pb
                    continue
        if "Overwrite" not in vs:
            first = pb
            if vs != {"Create", "Update"}:
                cx.violation(ck, "conditional-put-modes", "%s: the primary put_opts receives modes %s, expected exactly {Create, Update}" % (b.sp(pb), sorted(vs)), [b.sp(pb)])
            else:
                cx.passed(ck, "conditional-put-modes", [b.sp(pb)], sorted(vs))
        else:
            # Overwrite: only after the primary put failed and only under the opt-in flag
            if vs != {"Overwrite"}:
                cx.violation(ck, "overwrite-put-modes", "%s: a put_opts mixes Overwrite with %s" % (b.sp(pb), sorted(vs)), [b.sp(pb)])
            optin = set()
            for sw in M.bool_switches(b):
                r = sw["root"]
                if r and r[2] == "assign" and r[3]["rv"]["k"] == "use" and r[3]["rv"]["o"]["k"] in ("copy", "move"):
                    if M.pl_str(r[3]["rv"]["o"]["pl"]).endswith(".allow_unsafe_overwrite"):
                        optin.add(sw["true_edge"])
            prim_fail = set()
            for p2 in puts:
                if p2 != pb:
                    s, f = M.outcome_edges(b, p2)
                    prim_fail |= f
            ok1 = bool(optin) and b.dominated_by_edges(pb, optin)
            ok2 = bool(prim_fail) and b.dominated_by_edges(pb, prim_fail)
            if ok1 and ok2:
                cx.passed(ck, "overwrite-guarded", [b.sp(pb)])
            else:
                cx.violation(ck, "overwrite-guarded", "%s: PutMode::Overwrite is reachable %s" % (
                    b.sp(pb), "without allow_unsafe_overwrite being true" if not ok1 else "without the conditional PUT having failed first"), [b.sp(pb)])
    if first is None:
        cx.violation(ck, "conditional-put-modes", "no put_opts in put_with_cas is free of PutMode::Overwrite", [])
        return
    # a PUT that was applied is reported as success: from the success edge of the conditional put_opts no Err exit is reachable (a "conflict" reported after the write took
    # effect makes cas_retry! run the whole body again on top of a catalog that already holds its effect)
    ps_, pf_ = M.outcome_edges(b, first)
    errx = {e[0] for e in M.exit_defs(b) if e[2] == "err"}
    leak = None
    for e in ps_:
        if errx & (b.reachable(e[1]) | {e[1]}):
            leak = e
    if ps_ and leak is None:
        cx.passed(ck, "applied-put-is-success", [b.sp(first)])
    elif ps_:
        cx.violation(ck, "applied-put-is-success", "%s: after the conditional PUT succeeded put_with_cas can still return an error: the retry loop then repeats the mutation on a catalog that already "
                     "contains it (a swap fails with 'source no longer in catalog' although it was applied; a registration is indexed twice)" % b.sp(leak[0]), [b.sp(leak[0])])
    # Update carries the expected token; Create only on the == "none" edge
    upd = M.aggregates(b, lambda rv: rv.get("ak") == "adt" and rv.get("adt") == "object_store::UpdateVersion")
    okv = False
    for (bi, si, st) in upd:
        rv = st["rv"]
        idx = rv["fields"].index("e_tag") if "e_tag" in rv["fields"] else None
        if idx is not None and rv["ops"][idx]["k"] in ("copy", "move"):
            org = M.provenance(b, rv["ops"][idx]["pl"])
            if any(o[0] == "upvar" and o[1] == "expected_etag" for o in org) and any(o[0] == "agg" and str(o[1][2]).endswith("Option::Some") for o in org):
                okv = True
    if okv:
        cx.passed(ck, "update-carries-expected-etag", [b.sp(x[0], x[1]) for x in upd])
    else:
        cx.violation(ck, "update-carries-expected-etag", "PutMode::Update's e_tag is not Some(expected_etag)", [b.sp(x[0], x[1]) for x in upd])
    # the Create/Update choice is a comparison of expected_etag with the literal "none"
    eqs = []
    for sw in M.bool_switches(b):
        r = sw["root"]
        if r and r[2] == "call" and r[3]["callee"] == "std::cmp::PartialEq::eq":
            org = set()
            for a in r[3]["args"]:
                if a["k"] in ("copy", "move"):
                    org |= M.provenance(b, a["pl"])
            if any(o[0] == "upvar" and o[1] == "expected_etag" for o in org) and any(o[0] == "const" and "none" in o[1] for o in org):
                eqs.append(sw)
    if not eqs:
        cx.violation(ck, "create-iff-none", "no comparison of expected_etag with \"none\" selects the put mode", [])
    else:
        te = {sw["true_edge"] for sw in eqs}
        fe = {sw["false_edge"] for sw in eqs}
        c_ok = all(b.dominated_by_edges(x[0], te) for x in modes.get("Create", [])) and modes.get("Create")
        u_ok = all(b.dominated_by_edges(x[0], fe) for x in modes.get("Update", [])) and modes.get("Update")
        if c_ok and u_ok:
            cx.passed(ck, "create-iff-none", [b.sp(sw["block"]) for sw in eqs])
        else:
            cx.violation(ck, "create-iff-none", "PutMode::Create must be built only on the expected_etag == \"none\" edge and PutMode::Update only on the other", [b.sp(sw["block"]) for sw in eqs])
    # error mapping (HIR): arms of the match on the primary put's result
    h = cx.hir(S3 + "::put_with_cas")
    from engine import hir as H
    arms = None
    for n in H.walk(h["tree"]):
        if n.get("k") == "match" and any("put_opts" in (m.get("name") or "") for m in H.walk(n["scrut"]) if m.get("k") == "mcall"):
            arms = n["arms"]
            break
    if arms is None:
        cx.violation(ck, "error-mapping", "no match on the result of put_opts found", [])
        return
    for arm in arms:
        for alt in H.pat_alts(arm["pat"]):
            vs = H.pat_variant_chain(alt)
            res = H.result_class(arm["body"])
            label = "/".join(v.rsplit("::", 1)[-1] for v in vs) or "_"
            if vs and vs[0].rsplit("::", 1)[-1] == "Ok":
                ok = res == ("Ok", None)
                want = "Ok(())"
            elif len(vs) >= 2 and vs[1].rsplit("::", 1)[-1] in ("AlreadyExists", "Precondition"):
                ok = res == ("Err", "error::Error::Conflict")
                want = "Err(Error::Conflict)"
            elif len(vs) >= 2 and vs[1].rsplit("::", 1)[-1] in ("NotImplemented", "NotSupported"):
                ok = True  # judged by overwrite-guarded above
                want = "guarded overwrite"
            else:
                ok = res[0] == "Err" and res[1] != "error::Error::Conflict"
                want = "Err(non-Conflict)"
            if ok:
                cx.passed(ck, "error-mapping:%s" % label, [arm["sp"]], want)
            else:
                cx.violation(ck, "error-mapping:%s" % label, "%s: arm %s of the conditional PUT's result yields %s, expected %s" % (arm["sp"], label, res, want), [arm["sp"]])


def _save_sites(cx):
    out = []
    for k, c in cx.prog.sites(lambda c: bool(SAVE_RX.search(c)) and "::{closure" not in c):
        if c["callee"].startswith("futures::") or c["callee"].startswith("std::future"):
            continue
        out.append((k, c))
    return out


@rule("C02", "R3", "token and content of every conditional save come from the same load_*_with_etag of the same retry iteration")
def r3(cx):
    sites = _save_sites(cx)
    cx.floor("atomic_save_* call sites", len(sites), 16)
    for k, c in sites:
        b = cx.body(k)
        t = b.term(c["b"])
        helper = c["callee"].rsplit("::", 1)[1]
        tok = t["args"][-1]
        inst = "%s@%s" % (helper, _ordinal(sites, k, c))
        if tok["k"] == "const":
            cx.violation(k, inst + ":token", "%s: constant token passed to %s" % (c["sp"], helper), [c["sp"]])
            continue
        org = M.provenance(b, tok["pl"])
        loads = [(o[1][0], o[1][1], M.strip_unwraps(o[2])) for o in org if o[0] == "call" and LOAD_RX.search(o[1][1])]
        others = [o for o in org if (o[0] == "call" and not LOAD_RX.search(o[1][1])) or o[0] in ("arg", "upvar")]
        consts = [o for o in org if o[0] == "const"]
        if not loads:
            # creation path: the literal create-if-absent token, only where a load reported absence
            if consts and all("none" in o[1] for o in consts) and not others:
                lf = set()
                for lb in M.find_calls(b, lambda x: bool(LOAD_RX.search(x))):
                    s, f = M.outcome_edges(b, lb)
                    lf |= f
                if lf and b.dominated_by_edges(c["b"], lf):
                    cx.passed(k, inst + ":token", [c["sp"]], "create-if-absent token on the not-found edge of the load")
                    continue
            cx.violation(k, inst + ":token", "%s: the token given to %s does not come from a load_*_with_etag in this retry iteration (origins: %s)"
                         % (c["sp"], helper, _fmt(org)), [c["sp"]])
            continue
        bad = [l for l in loads if l[2] != ".1"]
        if bad or others:
            cx.violation(k, inst + ":token", "%s: the token given to %s has foreign origins %s" % (c["sp"], helper, _fmt(org)), [c["sp"]])
            continue
        # same iteration: no cycle through the save that avoids the load's success edges
        ledges = set()
        for (lb, _, _) in loads:
            s, f = M.outcome_edges(b, lb)
            ledges |= s
        if not ledges or not b.dominated_by_edges(c["b"], ledges):
            cx.violation(k, inst + ":token", "%s: %s is reachable without a successful load in this body" % (c["sp"], helper), [c["sp"]])
            continue
        if b.reaches(c["b"], c["b"], removed_edges=ledges):
            cx.violation(k, inst + ":token", "%s: %s can run again (loop) without re-loading the token: stale token on retry" % (c["sp"], helper),
                         [c["sp"], b.sp(loads[0][0])])
            continue
        cx.passed(k, inst + ":token", [c["sp"], b.sp(loads[0][0])], "token = .1 of the load in the same iteration")
        vi = VALUE_FROM_LOAD.get(helper)
        if vi is not None and t["args"][vi]["k"] in ("copy", "move"):
            vorg = M.provenance(b, t["args"][vi]["pl"])
            vloads = [(o[1][0], M.strip_unwraps(o[2])) for o in vorg if o[0] == "call" and LOAD_RX.search(o[1][1])]
            lb = {l[0] for l in loads}
            foreign = [x for x in vloads if x[0] not in lb]
            if foreign:
                cx.violation(k, inst + ":content", "%s: the value saved by %s also derives from a second read (%s): it can mix two catalog versions"
                             % (c["sp"], helper, b.sp(foreign[0][0])), [c["sp"], b.sp(foreign[0][0])])
            elif any(x[0] in lb and x[1].startswith(".0") for x in vloads):
                cx.passed(k, inst + ":content", [c["sp"]], "content = .0 of the same load")
            else:
                cx.violation(k, inst + ":content", "%s: the value saved by %s does not derive from the load that produced its token (origins: %s)"
                             % (c["sp"], helper, _fmt(vorg)), [c["sp"]])


def _ordinal(sites, k, c):
    same = [x for x in sites if named_parent(x[0]) == named_parent(k) and x[1]["callee"] == c["callee"]]
    same.sort(key=lambda x: (x[0], x[1]["b"]))
    return same.index((k, c))


def _fmt(org):
    out = []
    for o in sorted(org, key=str):
        if o[0] == "call":
            out.append("call %s%s" % (o[1][1].rsplit("::", 1)[-1], o[2]))
        elif o[0] in ("arg", "upvar", "const"):
            out.append("%s %s%s" % (o[0], o[1], o[2]))
    return ", ".join(out[:8])


@rule("C02", "R4", "a failed conditional save is never reported as success: no Ok exit is reachable from a failure edge of "
      "atomic_save_* (or of the cas_retry! block) within the same retry iteration, i.e. without a fresh load and a successful save; "
      "retries iterate the constant range 0..MAX_CAS_RETRIES")
def r4(cx):
    prog = cx.prog
    sites = _save_sites(cx)
    by_body = {}
    for k, c in sites:
        by_body.setdefault(k, []).append(c)
    checked = set()
    for k, cs in sorted(by_body.items()):
        b = cx.body(k)
        S, Fe = set(), set()
        for c in cs:
            s, f = M.outcome_edges(b, c["b"])
            S |= s
            Fe |= f
        L = set()
        for lb in M.find_calls(b, lambda x: bool(LOAD_RX.search(x))):
            s, f = M.outcome_edges(b, lb)
            L |= s
        cur, curb, Lblocks = k, b, set()
        while True:
            inst = "no-ok-after-failed-save@depth%d" % cur.count("::{closure#")
            if not S or not Fe:
                cx.violation(cur, inst, "%s: the result of the conditional save is not discriminated into success and failure (ignored result?)" % cur,
                             [c["sp"] for c in cs])
                break
            vf = M.VariantFlow(curb, removed_edges=S)
            reach = vf.reachable_from({e[1] for e in Fe}, extra_removed_edges=L, extra_removed_blocks=Lblocks)
            exits = [e for e in M.exit_defs(curb) if e[2] != "err"]
            bad = [e for e in exits if e[0] in reach]
            if bad:
                cx.violation(cur, inst, "%s: %s can report success after its conditional save failed (Ok exit reachable from the save's failure edge without a fresh load and successful save)"
                             % (curb.sp(bad[0][0], bad[0][1]), cur), [curb.sp(e[0], e[1]) for e in bad[:4]])
            else:
                cx.passed(cur, inst, [curb.sp(e[0]) for e in sorted(Fe)[:3]], "%d ok exits, none reachable from %d failure edges" % (len(exits), len(Fe)))
            checked.add(named_parent(cur))
            # climb: async block -> constructing body
            par = cur.rsplit("::{closure#", 1)[0] if "::{closure#" in cur else None
            if par is None or par not in prog.calls or prog.calls[par].get("kind") != "coroutine":
                break
            pb = cx.body(par)
            aggs = M.aggregates(pb, lambda rv: rv.get("ak") in ("coroutine", "closure") and rv.get("def") == cur)
            if not aggs:
                break
            S, Fe = set(), set()
            for (bi, si, st) in aggs:
                s, f = M.outcome_edges_of_local(pb, st["lhs"]["l"])
                S |= s
                Fe |= f
            L = set()
            Lblocks = {a[0] for a in aggs}
            cur, curb = par, pb
    cx.floor("mutating functions checked", len(checked), 15)
    mc = cx.lib.consts.get("metadata::s3::MAX_CAS_RETRIES")
    if mc is None or "int" not in mc:
        cx.violation("<program>", "retry-bound-constant", "metadata::s3::MAX_CAS_RETRIES is not an integer constant any more", [])
    else:
        cx.passed("metadata::s3::MAX_CAS_RETRIES", "retry-bound-constant", [mc["span"]], mc["int"])


LEGACY_READERS = {S3 + "::load_time_index", S3 + "::load_chunk_metadata_internal", S3 + "::load_time_index_with_etag", S3 + "::load_chunk_metadata_with_etag"}
LEGACY_ALLOWED = {S3 + "::load_catalog_with_etag", S3 + "::load_time_index", S3 + "::load_chunk_metadata_internal"} | MAINT


@rule("C02", "R5", "one object, one version: trait-reachable readers take chunks and time index from one load_catalog_* result; "
      "the legacy two-object read occurs only in load_catalog_with_etag's not-found fallback")
def r5(cx):
    prog = cx.prog
    n = 0
    for k, c in prog.sites(lambda c: c in LEGACY_READERS):
        parent = named_parent(k)
        n += 1
        if parent in LEGACY_ALLOWED:
            cx.passed(k, "legacy-read:%s" % c["callee"].rsplit("::", 1)[1], [c["sp"]])
        else:
            cx.violation(k, "legacy-read:%s" % c["callee"].rsplit("::", 1)[1],
                         "%s: %s reads the chunk list / time index as separate objects (%s): a reader can see versions that disagree"
                         % (c["sp"], parent, c["callee"]), [c["sp"]])
    cx.floor("legacy two-object read sites", n, 2)
    # in load_catalog_with_etag the legacy reads sit on the failure (not found) side of the catalog GET
    ck, b = cx.need_body(S3 + "::load_catalog_with_etag")
    gets = M.find_calls(b, lambda c: c.startswith("object_store::ObjectStore::get"))
    fe = set()
    for g in gets:
        s, f = M.outcome_edges(b, g)
        fe |= f
    for lb in M.find_calls(b, lambda c: c in LEGACY_READERS):
        if fe and b.dominated_by_edges(lb, fe):
            cx.passed(ck, "legacy-read-on-fallback-only", [b.sp(lb)])
        else:
            cx.violation(ck, "legacy-read-on-fallback-only", "%s: legacy two-object read outside the catalog-not-found fallback" % b.sp(lb), [b.sp(lb)])
    # MetadataCatalog owns both structures
    adt = cx.lib.adts.get("metadata::s3::MetadataCatalog")
    fields = [f["name"] for f in adt["variants"][0]["fields"]] if adt else []
    if "chunks" in fields and "time_index" in fields:
        cx.passed("metadata::s3::MetadataCatalog", "catalog-owns-chunks-and-time-index", [], fields)
    else:
        cx.violation("metadata::s3::MetadataCatalog", "catalog-owns-chunks-and-time-index", "MetadataCatalog no longer holds both chunks and time_index: %s" % fields, [])


LOAD_ANY_RX = re.compile(r"ObjectStoreMetadataClient::load_\w+$")


def _cas_blocks(cx):
    """(async-block key, parent key, aggregate sites in the parent) for every nested coroutine that holds a conditional save"""
    out = {}
    for k, c in _save_sites(cx):
        if "::{closure#" not in k:
            continue
        par = k.rsplit("::{closure#", 1)[0]
        if par in cx.prog.calls and cx.prog.calls[par].get("kind") == "coroutine":
            pb = cx.body(par)
            aggs = M.aggregates(pb, lambda rv: rv.get("ak") == "coroutine" and rv.get("def") == k)
            if aggs:
                out[k] = (par, aggs)
    return out


@rule("C02", "R6", "a retry body starts from scratch: the cas_retry! block captures nothing by mutable reference, and a hand-written retry loop "
      "carries no user variable that is assigned both before and inside the loop (state surviving a conflict would make the retried mutation differ from the first attempt)")
def r6(cx):
    blocks = _cas_blocks(cx)
    cx.floor("cas_retry! blocks with a conditional save", len(blocks), 9)
    for k, (par, aggs) in sorted(blocks.items()):
        pb = cx.body(par)
        bad = []
        for (bi, si, st) in aggs:
            for name, op in zip(st["rv"].get("fields") or [], st["rv"]["ops"]):
                if op["k"] not in ("copy", "move") or op["pl"].get("p"):
                    continue
                for (dbi, dsi, dk, pay) in pb.defs().get(op["pl"]["l"], []):
                    if dk == "assign" and pay["rv"]["k"] == "ref" and pay["rv"].get("mut"):
                        bad.append((name, pb.sp(dbi, dsi)))
        if bad:
            cx.violation(k, "retry-body-captures-mutable-state:%s" % bad[0][0],
                         "%s: the retry block mutates `%s`, which lives outside the block and keeps its value across attempts: after a conflict the retried "
                         "load-modify-save is not the same mutation (e.g. index entries already consumed are not added again)" % (bad[0][1], bad[0][0]), [b_[1] for b_ in bad])
        else:
            cx.passed(k, "retry-body-captures-mutable-state", [pb.sp(aggs[0][0], aggs[0][1])])
    # hand-written loops
    n = 0
    for k, c in _save_sites(cx):
        if k in blocks:
            continue
        b = cx.body(k)
        sb = c["b"]
        if sb not in b.reach_set(sb):
            continue
        loop = {x for x in b.reach_set(sb) if sb in b.reach_set(x)} | {sb}
        n += 1
        carried = []
        for l, name in sorted(b.names.items()):
            if name in ("iter", "__awaitee", "self") or l <= b.nargs:
                continue
            ds = [d for d in b.defs().get(l, []) if not b.is_cleanup(d[0])]
            din = [d for d in ds if d[0] in loop]
            dout = [d for d in ds if d[0] not in loop and any(x in b.reach_set(d[0]) for x in loop)]
            if din and dout:
                carried.append((name, b.sp(din[0][0], din[0][1])))
        if carried:
            cx.violation(k, "retry-loop-carries-state:%s" % carried[0][0], "%s: `%s` is assigned before the retry loop and again inside it: its value survives a conflict and "
                         "changes what the retried attempt writes" % (carried[0][1], carried[0][0]), [x[1] for x in carried])
        else:
            cx.passed(k, "retry-loop-carries-state", [c["sp"]])
    cx.floor("hand-written retry loops with a conditional save", n, 5)


@rule("C02", "R7", "decisions and content inside a retry body come from that iteration's read: nothing captured by a cas_retry! block derives from "
      "another catalog read taken outside the block (stale snapshot)")
def r7(cx):
    blocks = _cas_blocks(cx)
    for k, (par, aggs) in sorted(blocks.items()):
        pb = cx.body(par)
        bad = []
        for (bi, si, st) in aggs:
            for name, op in zip(st["rv"].get("fields") or [], st["rv"]["ops"]):
                org = M.operand_origins(pb, op, at=(bi, si), adapters=M.PURE_ADAPTERS | {"std::iter::Iterator::max", "std::iter::Iterator::min", "std::iter::Iterator::filter_map",
                                                                                         "std::option::Option::<T>::unwrap_or", "std::iter::Iterator::sum", "std::iter::Iterator::count"})
                loads = [o for o in org if o[0] == "call" and LOAD_ANY_RX.search(o[1][1])]
                if loads:
                    bad.append((name, pb.sp(loads[0][1][0]), loads[0][1][1].rsplit("::", 1)[-1]))
        if bad:
            cx.violation(k, "retry-body-uses-outside-read:%s" % bad[0][0],
                         "%s: `%s`, used inside the retry block, is computed from %s taken outside the block: after a concurrent commit the retried attempt "
                         "acts on a stale snapshot (validation or derived values no longer match the version being replaced)" % (bad[0][1], bad[0][0], bad[0][2]),
                         [x[1] for x in bad])
        else:
            cx.passed(k, "retry-body-uses-outside-read", [pb.sp(aggs[0][0], aggs[0][1])])


@rule("C02", "R8", "chunk list and time index change together in every written version: the indexing rules of C07 for registration (the bucket loop runs unconditionally before the "
      "save, over every bucket of the range) and for removal / compaction swap (path removed from the map and from every bucket before the save), evaluated for this property")
def r8(cx):
    import importlib
    m = importlib.import_module("rules.C07")
    ib = len(cx.instances)
    ob0, di0 = cx.obligations, cx.discharged
    for f in ("r1", "r5"):
        getattr(m, f)(cx)
    cx.obligations = ob0 + len(cx.instances[ib:])
    cx.discharged = di0 + len([i for i in cx.instances[ib:] if i["verdict"] == "holds"])


@rule("C02", "R9", "a mutation decides on the conditional read, never on the node's cached copy: load_catalog_cached is called only by read-only methods (get_* / list_* / has_* / load_*), "
      "and the cache is read nowhere else - a delete / register / swap that consults the 60-second copy reports success (or skips its write) on the strength of a catalog version "
      "other clients have already replaced")
def r9(cx):
    prog = cx.prog
    LCC = S3 + "::load_catalog_cached"
    n = 0
    for k, c in prog.sites(lambda c: c == LCC):
        p = named_parent(k)
        if p == LCC:
            continue
        n += 1
        name = p.rsplit("::", 1)[1]
        if name.startswith(("get_", "list_", "has_", "load_")):
            cx.passed(p, "cached-catalog-read-by-reader:%s" % name, [c["sp"]])
        else:
            cx.violation(p, "cached-catalog-read-by-mutation:%s" % name, "%s: %s reads the cached catalog copy: whatever it decides from it (skip the write, report success, choose what to change) is decided on "
                         "a version another client may have replaced up to the cache's time-to-live ago" % (c["sp"], name), [c["sp"]])
    cx.floor("callers of load_catalog_cached", n, 6)
    # direct reads of the cache field
    for k in prog.fn_keys(r"^(<)?metadata::s3::"):
        b = cx.body(k)
        if b is None:
            continue
        for bi, t in b.calls():
            if t["callee"] == "tokio::sync::RwLock::<T>::read" and t["args"]:
                o = M.operand_origins(b, t["args"][0], at=(bi, M.T))
                if any(x[0] in ("upvar", "arg") and ".catalog_cache" in x[2] for x in o):
                    p = named_parent(k)
                    if p == LCC:
                        cx.passed(p, "cache-field-read", [b.sp(bi)])
                    else:
                        cx.violation(p, "cache-field-read:%s" % p.rsplit("::", 1)[1], "%s: %s reads the catalog cache directly, outside load_catalog_cached" % (b.sp(bi), p.rsplit("::", 1)[1]), [b.sp(bi)])


@rule("C02", "R10", "the token a loader returns is the ETag of the GET whose body it parsed (C13.R5 (a), evaluated for every load_*_with_etag of the object-store backend): an ETag fetched "
      "by a second request can belong to a newer version than the body, and the conditional PUT then fences the wrong version")
def r10(cx):
    import importlib
    m = importlib.import_module("rules.C13")
    ib = len(cx.instances)
    ob0, di0 = cx.obligations, cx.discharged
    m.r5(cx)
    cx.obligations = ob0 + len(cx.instances[ib:])
    cx.discharged = di0 + len([i for i in cx.instances[ib:] if i["verdict"] == "holds"])


@rule("C02", "R11", "a loader never turns a failed read into empty content: in load_catalog_with_etag no Ok exit is reachable from the failure edge of a legacy-file read - a catalog created "
      "from 'nothing' because one GET failed permanently drops every chunk the legacy files hold (and, if only one of the two reads failed, writes a version whose chunk list and "
      "time index disagree)")
def r11(cx):
    fk = S3 + "::load_catalog_with_etag"
    ck = cx.prog.code_key(fk)
    b = cx.body(ck)
    if b is None:
        cx.violation(fk, "anchor-missing", "body not found", [])
        return
    reads = M.find_calls(b, lambda c: c in (S3 + "::load_chunk_metadata_with_etag", S3 + "::load_time_index_with_etag"))
    if not cx.floor("legacy reads in load_catalog_with_etag", len(reads), 2, ck):
        return
    okx = {e[0] for e in M.exit_defs(b) if e[2] == "ok"}
    for i, r in enumerate(reads):
        s, f = M.outcome_edges(b, r)
        leak = [e for e in f if okx & (b.reachable(e[1]) | {e[1]})]
        if s and not leak:
            cx.passed(fk, "legacy-read-failure-propagates@%d" % i, [b.sp(r)])
        else:
            cx.violation(fk, "legacy-read-failure-propagates@%d" % i, "%s: when this read of a legacy catalog file fails the loader still returns a catalog (without that file's content)" % b.sp(r), [b.sp(r)])
