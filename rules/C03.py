"""C03 Compaction never loses or duplicates stored rows.
Decided: ordering skeleton of a compaction (lease -> merge (upload+register) -> swap -> settle lease -> schedule
deletion), swap preconditions in both backends, level arithmetic, merge reads every source or fails.
Not decided: multiset equality of concat / sort / take, behaviour under arbitrary crash sequences."""
import re

from engine import mir as M
from engine.core import rule
from engine.program import named_parent

CMP = "compactor::Compactor::"
MC = "metadata::client::MetadataClient::"
LOC = "<metadata::local::LocalMetadataClient as metadata::client::MetadataClient>::"
S3T = "<metadata::s3::ObjectStoreMetadataClient as metadata::client::MetadataClient>::"
COMPACT_FNS = [CMP + "compact_l0", CMP + "compact_level"]


_W = {}


def _swap_effect(cx):
    """complete_compaction plus local wrappers all of whose Ok exits follow a successful complete_compaction"""
    if "w" not in _W or _W.get("tree") != cx.facts.tree_hash:
        _W["w"] = {MC + "complete_compaction"} | {w for w in cx.prog.must_wrappers({MC + "complete_compaction"}) if "::{closure#" not in w}
        _W["tree"] = cx.facts.tree_hash
    return _W["w"]


def _swaps(cx, b):
    eff = _swap_effect(cx)
    return M.find_calls(b, lambda c: c in eff)


def _succ(b, blocks):
    s, f = set(), set()
    for x in blocks:
        a, c = M.outcome_edges(b, x)
        s |= a
        f |= c
    return s, f


@rule("C03", "R1", "the merged chunk is in the catalog no later than the swap: merge_chunks returns a path only after a successful upload and a successful "
      "register_chunk of that same path with metadata computed from the written batch; complete_compaction's target is merge_chunks' result on its success edge")
def r1(cx):
    mk, mb = cx.need_body(CMP + "merge_chunks")
    put = M.find_calls(mb, lambda c: c == "object_store::ObjectStore::put")
    reg = M.find_calls(mb, lambda c: c == MC + "register_chunk")
    if not put:
        cx.violation(mk, "anchor-missing:put", "merge_chunks does not upload", [])
        return
    exits = [e for e in M.exit_defs(mb) if e[2] != "err"]
    ps, _ = _succ(mb, put)
    if not reg:
        cx.violation(mk, "target-registered-before-swap", "merge_chunks uploads the merged chunk but never registers it: completing the compaction then drops the sources "
                     "for a chunk the catalog cannot reach (in-memory backend) or always fails (object-store backend)", [mb.sp(put[0])])
    else:
        rs, _ = _succ(mb, reg)
        ok = rs and ps and all(mb.dominated_by_edges(e[0], rs) and mb.dominated_by_edges(e[0], ps) for e in exits) and all(mb.dominated_by_edges(r, ps) for r in reg)
        if ok:
            cx.passed(mk, "target-registered-before-swap", [mb.sp(reg[0])], "Ok(path) only after upload and registration succeeded")
        else:
            cx.violation(mk, "target-registered-before-swap", "%s: merge_chunks can return a path whose upload or registration did not succeed" % mb.sp(reg[0]), [mb.sp(reg[0])])
        # same path: returned, uploaded, registered
        def gen(o):
            return {x[1][0] for x in o if x[0] == "call" and x[1][1] == CMP + "generate_compacted_path"}
        ret = set()
        for (bi, si, cls) in exits:
            if si != M.T and mb.blocks[bi]["stmts"][si]["rv"]["k"] == "agg":
                ret |= gen(M.operand_origins(mb, mb.blocks[bi]["stmts"][si]["rv"]["ops"][0], at=(bi, si)))
        rp = gen(M.operand_origins(mb, mb.term(reg[0])["args"][1], at=(reg[0], M.T)))
        pp = gen(M.operand_origins(mb, mb.term(put[0])["args"][1], at=(put[0], M.T), adapters=M.PURE_ADAPTERS | {"object_store::path::Path::from"}))
        if ret and ret == rp == pp:
            cx.passed(mk, "one-path", [mb.sp(reg[0])])
        else:
            cx.violation(mk, "one-path", "%s: the path uploaded, the path registered and the path returned by merge_chunks are not the same value" % mb.sp(reg[0]), [mb.sp(reg[0])])
        # metadata from the written batch
        aggs = M.aggregates(mb, lambda rv: rv.get("ak") == "adt" and rv.get("adt", "").endswith("ChunkMetadata"))
        wb = M.find_calls(mb, lambda c: c.endswith("ParquetWriter::write_batch"))
        if aggs and wb:
            written = {x[1][0] for x in M.operand_origins(mb, mb.term(wb[0])["args"][1], at=(wb[0], M.T)) if x[0] == "call"}
            (bi, si, st) = aggs[0]
            f = dict(zip(st["rv"]["fields"], st["rv"]["ops"]))
            probs = []
            for fld, via in (("row_count", "num_rows"), ("min_timestamp", "timestamp_bounds"), ("max_timestamp", "timestamp_bounds")):
                org = M.operand_origins(mb, f[fld], at=(bi, si), adapters=M.PURE_ADAPTERS | {"arrow_array::RecordBatch::num_rows", CMP + "timestamp_bounds"})
                src = {x[1][0] for x in org if x[0] == "call"}
                direct = M.operand_origins(mb, f[fld], at=(bi, si))
                if not (src & written) or not M.has_call(direct, lambda c, via=via: c.endswith(via)):
                    probs.append(fld)
            o_min = M.operand_origins(mb, f["min_timestamp"], at=(bi, si))
            o_max = M.operand_origins(mb, f["max_timestamp"], at=(bi, si))
            pmin = {M.strip_unwraps(x[2]) for x in o_min if x[0] == "call" and x[1][1].endswith("timestamp_bounds")}
            pmax = {M.strip_unwraps(x[2]) for x in o_max if x[0] == "call" and x[1][1].endswith("timestamp_bounds")}
            if pmin != {".0"} or pmax != {".1"}:
                probs.append("min/max positions %s %s" % (sorted(pmin), sorted(pmax)))
            if probs:
                cx.violation(mk, "metadata-from-written-batch", "%s: the registered metadata of the merged chunk (%s) is not computed from the batch that was written" % (mb.sp(bi, si), ", ".join(probs)), [mb.sp(bi, si)])
            else:
                cx.passed(mk, "metadata-from-written-batch", [mb.sp(bi, si)])
    for fn in COMPACT_FNS:
        ck, b = cx.need_body(fn)
        swaps = _swaps(cx, b)
        merges = M.find_calls(b, lambda c: c == CMP + "merge_chunks")
        if not cx.floor("complete_compaction in %s" % fn.rsplit("::", 1)[1], len(swaps), 1, ck):
            continue
        ms, _ = _succ(b, merges)
        for s in swaps:
            org = set()
            for a in b.term(s)["args"][1:]:
                org |= M.operand_origins(b, a, at=(s, M.T))
            from_merge = M.has_call(org, lambda c: c == CMP + "merge_chunks")
            if from_merge and ms and b.dominated_by_edges(s, ms):
                cx.passed(ck, "swap-target-is-merge-result", [b.sp(s)])
            else:
                cx.violation(ck, "swap-target-is-merge-result", "%s: complete_compaction's target is not the successfully merged and registered chunk" % b.sp(s), [b.sp(s)])
            # sources of the swap = the group that was merged and leased
            so = set()
            for a in b.term(s)["args"][1:]:
                so |= M.operand_origins(b, a, at=(s, M.T))
            mo = set()
            for m in merges:
                mo |= M.operand_origins(b, b.term(m)["args"][1], at=(m, M.T))
            same = {(x[0], x[1] if x[0] != "call" else x[1][0]) for x in so if x[0] == "call"} & {(x[0], x[1] if x[0] != "call" else x[1][0]) for x in mo if x[0] == "call"}
            if same:
                cx.passed(ck, "swap-sources-are-merged-group", [b.sp(s)])
            else:
                cx.violation(ck, "swap-sources-are-merged-group", "%s: the chunks swapped out are not the chunks that were merged" % b.sp(s), [b.sp(s)])


@rule("C03", "R7", "atomic publish: the catalog version that first lists the merged chunk is the one that drops its sources (the target is inserted inside the swap's "
      "compare-and-swap and nowhere else)")
def r7(cx):
    mk, mb = cx.need_body(CMP + "merge_chunks")
    reg = M.find_calls(mb, lambda c: c == MC + "register_chunk")
    if reg:
        cx.violation(mk, "target-listed-before-sources-dropped", "%s: merge_chunks registers the merged chunk in its own catalog update, before complete_compaction swaps the sources out: "
                     "a failure or crash in between leaves the merged chunk next to its sources (every row twice)" % mb.sp(reg[0]), [mb.sp(reg[0])])
    else:
        cx.passed(mk, "target-listed-before-sources-dropped", [])


@rule("C03", "R2", "sources are scheduled for deletion (and the lease is settled as completed) only after the swap succeeded; the compaction path never deletes "
      "or un-registers a chunk other than through the swap")
def r2(cx):
    prog = cx.prog
    comp = [k for k in prog.calls if k.startswith("compactor::")]
    sites = prog.sites(lambda c: c == CMP + "schedule_deletion", within=comp)
    n = 0
    for k, c in sites:
        p = named_parent(k)
        if p == CMP + "enforce_retention":
            continue  # judged by C09
        n += 1
        b = cx.body(k)
        swaps = _swaps(cx, b)
        ss, _ = _succ(b, swaps)
        if ss and b.dominated_by_edges(c["b"], ss):
            cx.passed(k, "schedule-after-swap", [c["sp"]])
        else:
            cx.violation(k, "schedule-after-swap", "%s: %s schedules a chunk for physical deletion on a path where the swap did not (yet) succeed: if the swap fails or "
                         "succeeded ambiguously the catalog still references a file that GC removes after the grace period" % (c["sp"], p), [c["sp"]])
    cx.floor("schedule_deletion sites in compaction", n, 2)
    for k, c in prog.sites(lambda c: c == MC + "complete_lease", within=comp):
        b = cx.body(k)
        swaps = _swaps(cx, b)
        ss, _ = _succ(b, swaps)
        if ss and b.dominated_by_edges(c["b"], ss):
            cx.passed(k, "lease-held-until-swap", [c["sp"]])
        else:
            cx.violation(k, "lease-held-until-swap", "%s: the lease is marked completed before the catalog swap succeeded: another compactor can pick the same sources in between "
                         "and both publish a merged copy" % c["sp"], [c["sp"]])
    for k, c in prog.sites(lambda c: c == MC + "delete_chunk", within=comp):
        p = named_parent(k)
        if p == CMP + "enforce_retention":
            continue
        cx.violation(k, "delete_chunk-in-compaction", "%s: %s removes a chunk from the catalog outside the atomic swap" % (c["sp"], p), [c["sp"]])


def _swap_cas_block(cx):
    for k in sorted(cx.prog.calls):
        if k.startswith(S3T + "complete_compaction::{closure#0}::{closure#"):
            b = cx.body(k)
            if b is not None and M.find_calls(b, lambda c: c.endswith("atomic_save_catalog")):
                return k, b
    return None, None


def _find_none_edges(b, param):
    """None edges of `source_chunks.iter().find(..)` (no source missing) and whether the predicate negates a map lookup"""
    out = set()
    ok_pred = False
    for fb in M.find_calls(b, lambda c: c == "std::iter::Iterator::find"):
        org = M.operand_origins(b, b.term(fb)["args"][0], at=(fb, M.T))
        if any(x[0] == "upvar" and x[1] == param for x in org):
            s, f = M.outcome_edges(b, fb)
            out |= f
    return out


@rule("C03", "R3", "swap preconditions, both backends: nothing is removed / saved unless the target is in the catalog and every source still is")
def r3(cx):
    # object store: the conditional save is the commit point
    k, b = _swap_cas_block(cx)
    if b is None:
        cx.violation(S3T + "complete_compaction", "anchor-missing:cas-block", "CAS block not found", [])
    else:
        saves = M.find_calls(b, lambda c: c.endswith("atomic_save_catalog"))
        tgt = set()
        for g in M.find_calls(b, lambda c: c in ("std::collections::HashMap::<K, V, S, A>::get_mut", "std::collections::HashMap::<K, V, S, A>::get", "std::collections::HashMap::<K, V, S, A>::contains_key")):
            ko = M.operand_origins(b, b.term(g)["args"][1], at=(g, M.T))
            if any(x[0] == "upvar" and "target" in str(x[1]) for x in ko):
                s, f = M.outcome_edges(b, g)
                tgt |= s
                for sw in M.bool_switches(b):
                    r = sw["root"]
                    if r and r[2] == "call" and r[0] == g:
                        tgt.add(sw["true_edge"])
        src = _find_none_edges(b, "_ref__source_chunks") | _find_none_edges(b, "source_chunks")
        for name, edges, msg in (("target-known", tgt, "the target being in the catalog"), ("sources-present", src, "every source still being in the catalog")):
            if edges and all(b.dominated_by_edges(s, edges) for s in saves):
                cx.passed(S3T + "complete_compaction", name, [b.sp(saves[0])])
            else:
                cx.violation(S3T + "complete_compaction", name, "%s: the swap can be committed without %s (%s)" % (
                    b.sp(saves[0]), msg, "sources dropped for an unreachable target" if name == "target-known" else "a second compactor publishes a second copy of the same rows"), [b.sp(saves[0])])
    # in-memory: removals are the commit point
    lk = LOC + "complete_compaction::{closure#0}"
    lb = cx.body(lk)
    if lb is None:
        cx.violation(LOC + "complete_compaction", "anchor-missing", "body not found", [])
        return
    sinks = M.find_calls(lb, lambda c: c.endswith("::delete_chunk") or c == "dashmap::DashMap::<K, V, S>::remove" or (c == "dashmap::DashMap::<K, V, S>::insert"))
    tgt = set()
    for sw in M.bool_switches(lb):
        r = sw["root"]
        if r and r[2] == "call" and r[3]["callee"] == "dashmap::DashMap::<K, V, S>::contains_key":
            ko = M.operand_origins(lb, r[3]["args"][1], at=(r[0], M.T))
            if any(x[0] == "upvar" and "target" in str(x[1]) for x in ko):
                tgt.add(sw["true_edge"])
    src = _find_none_edges(lb, "source_chunks")
    for name, edges, msg in (("target-known", tgt, "the target being in the catalog"), ("sources-present", src, "every source still being in the catalog")):
        if sinks and edges and all(lb.dominated_by_edges(s, edges) for s in sinks):
            cx.passed(LOC + "complete_compaction", name, [lb.sp(sinks[0])])
        else:
            cx.violation(LOC + "complete_compaction", name, "%s: the in-memory swap can remove sources without %s" % (lb.sp(sinks[0]) if sinks else "?", msg), [lb.sp(sinks[0])] if sinks else [])


@rule("C03", "R4", "level arithmetic: the level written for the target is max(source levels) + 1, computed from the catalog version being replaced")
def r4(cx):
    ADP = M.PURE_ADAPTERS | {"std::iter::Iterator::max", "std::iter::Iterator::filter_map", "std::option::Option::<T>::unwrap_or"}
    k, b = _swap_cas_block(cx)
    checks = []
    if b is not None:
        for bi, blk in enumerate(b.blocks):
            if blk.get("cleanup"):
                continue
            for si, st in enumerate(blk["stmts"]):
                if M.pl_str(st["lhs"]).endswith(".level") and st["lhs"].get("p") and st["rv"]["k"] == "use":
                    checks.append((S3T + "complete_compaction", b, bi, si, st["rv"]["o"]))
    lb = cx.body(LOC + "complete_compaction::{closure#0}")
    if lb is not None:
        for ib in M.find_calls(lb, lambda c: c == "dashmap::DashMap::<K, V, S>::insert"):
            recv = M.operand_origins(lb, lb.term(ib)["args"][0], at=(ib, M.T))
            if M.has_field(recv, None, ".chunk_levels"):
                checks.append((LOC + "complete_compaction", lb, ib, M.T, lb.term(ib)["args"][2]))
    cx.floor("level stores in complete_compaction (both backends)", len(checks), 2)
    for fk, bb, bi, si, op in checks:
        o1 = M.operand_origins(bb, op, at=(bi, si))
        o2 = M.operand_origins(bb, op, at=(bi, si), adapters=ADP)
        o3 = M.operand_origins(bb, op, at=(bi, si), adapters=M.PURE_ADAPTERS | {"std::option::Option::<T>::unwrap_or"})
        viamax = M.has_call(o3, lambda c: c == "std::iter::Iterator::max")
        o1 = o3
        plus1 = any(x[0] == "bin" and x[1][2] in ("Add", "AddWithOverflow") for x in o1) and any(x[0] == "const" and x[1] == "1" for x in o1)
        other_bins = {x[1][2] for x in o1 if x[0] == "bin"} - {"Add", "AddWithOverflow"}
        # on EVERY path: each definition the stored value can come from (through plain copies) is itself an addition
        roots = M.root_defs(bb, op)
        not_add = [r for r in roots if not (r[0] == "bin" and r[1] in ("Add", "AddWithOverflow"))]
        if viamax and plus1 and not other_bins and roots and not_add:
            where = not_add[0][2] if len(not_add[0]) > 2 and isinstance(not_add[0][2], tuple) else None
            cx.violation(fk, "level-is-max-plus-one", "%s: on some path the target's level is stored without the + 1 (it comes straight from %s%s): the merged chunk stays at its sources' level, "
                         "is selected again at that level, and the compaction never reaches a fixpoint" % (bb.sp(bi, si), not_add[0][:2], (" at " + bb.sp(*where)) if where else ""), [bb.sp(bi, si)])
        elif viamax and plus1 and not other_bins:
            cx.passed(fk, "level-is-max-plus-one", [bb.sp(bi, si)])
        else:
            cx.violation(fk, "level-is-max-plus-one", "%s: the target's level is not max(source levels) + 1 (max=%s, +1=%s, other operators=%s)" % (bb.sp(bi, si), viamax, plus1, sorted(other_bins)), [bb.sp(bi, si)])


@rule("C03", "R5", "merge reads every source or fails: in ChunkMerger::merge a failed read_chunk ends the merge with an error; every path is read")
def r5(cx):
    ck, b = cx.need_body("compactor::merge::ChunkMerger::merge")
    reads = M.find_calls(b, lambda c: c == "compactor::merge::ChunkMerger::read_chunk")
    if not cx.floor("read_chunk in merge", len(reads), 1, ck):
        return
    s, f = _succ(b, reads)
    exits = [e for e in M.exit_defs(b) if e[2] != "err"]
    reach = set()
    for e in f:
        reach |= b.reachable(e[1]) | {e[1]}
    bad = [e for e in exits if e[0] in reach]
    if bad or not f:
        cx.violation(ck, "failed-read-aborts", "%s: merge can return Ok although a source chunk could not be read: its rows silently vanish from the merged chunk" % b.sp(reads[0]), [b.sp(reads[0])])
    else:
        cx.passed(ck, "failed-read-aborts", [b.sp(reads[0])])
    # the read loop iterates the `paths` parameter itself (no skip / take / filter)
    arg = M.operand_origins(b, b.term(reads[0])["args"][1], at=(reads[0], M.T), adapters={"std::iter::Iterator::next", "std::iter::IntoIterator::into_iter", "core::slice::<impl [T]>::iter",
                                                                                           "std::ops::Deref::deref", "std::string::String::as_str", "std::convert::AsRef::as_ref", "std::ops::Try::branch"})
    foreign = [x for x in arg if x[0] == "call"]
    if any(x[0] == "upvar" and x[1] == "paths" for x in arg) and not foreign:
        cx.passed(ck, "reads-all-paths", [b.sp(reads[0])])
    else:
        cx.violation(ck, "reads-all-paths", "%s: the merge loop does not iterate the source list as given (%s)" % (b.sp(reads[0]), [x[1][1] for x in foreign][:3]), [b.sp(reads[0])])
    # extended into the merged set
    ext = M.find_calls(b, lambda c: c == "std::iter::Extend::extend" or c == "std::vec::Vec::<T, A>::push" or c == "std::vec::Vec::<T, A>::append")
    okx = any(M.has_call(M.operand_origins(b, b.term(x)["args"][1], at=(x, M.T)), lambda c: c.endswith("read_chunk")) for x in ext)
    if okx:
        cx.passed(ck, "read-batches-kept", [b.sp(ext[0])])
    else:
        cx.violation(ck, "read-batches-kept", "the batches read from a source chunk are not added to the merge input", [])


@rule("C03", "R6", "lease before work: merge_chunks runs only on the success edge of acquire_lease for the same group")
def r6(cx):
    for fn in COMPACT_FNS:
        ck, b = cx.need_body(fn)
        acq = M.find_calls(b, lambda c: c == MC + "acquire_lease")
        merges = M.find_calls(b, lambda c: c == CMP + "merge_chunks")
        if not cx.floor("merge_chunks in %s" % fn.rsplit("::", 1)[1], len(merges), 1, ck):
            continue
        s, f = _succ(b, acq)
        for m in merges:
            go = {x[1][0] if x[0] == "call" else x[1] for x in M.operand_origins(b, b.term(m)["args"][1], at=(m, M.T)) if x[0] in ("call", "upvar")}
            ao = set()
            for a in acq:
                ao |= {x[1][0] if x[0] == "call" else x[1] for x in M.operand_origins(b, b.term(a)["args"][2], at=(a, M.T)) if x[0] in ("call", "upvar")}
            if s and b.dominated_by_edges(m, s) and (go & ao):
                cx.passed(ck, "merge-under-lease", [b.sp(m)])
            else:
                cx.violation(ck, "merge-under-lease", "%s: chunks are merged without holding a lease on that group (two compactors can merge the same sources)" % b.sp(m), [b.sp(m)])


@rule("C03", "R8", "groups are the catalog's candidate groups, not thinned by lease state: what compact_l0 / compact_level lease, merge and swap derives from get_l0_candidates / "
      "get_level_candidates alone; nothing that reads the lease table (load_leases) shapes a group - an in-flight merged chunk is registered unleased (finding R7) and is safe from other "
      "compactors only because it is always grouped with its leased sources")
def r8(cx):
    CAND = {MC + "get_l0_candidates", MC + "get_level_candidates"}
    lease_readers = cx.prog.may_reach({MC + "load_leases"}, within_prefix="compactor::")
    for fn in COMPACT_FNS:
        ck, b = cx.need_body(fn)
        acq = M.find_calls(b, lambda c: c == MC + "acquire_lease")
        if not cx.floor("acquire_lease in %s" % fn.rsplit("::", 1)[1], len(acq), 1, ck):
            continue
        for a in acq:
            o = M.operand_origins(b, b.term(a)["args"][2], at=(a, M.T))
            calls = {x[1][1] for x in o if x[0] == "call"}
            direct = MC + "load_leases" in calls
            via = sorted(c for c in calls if c in lease_readers or named_parent(c) in lease_readers)
            other = sorted(c for c in calls - CAND if c in cx.prog.calls and c not in via)
            if not (calls & CAND):
                cx.violation(ck, "groups-from-catalog-candidates", "%s: the chunk group being leased does not come from get_l0_candidates / get_level_candidates" % b.sp(a), [b.sp(a)])
            elif direct or via:
                cx.violation(ck, "groups-from-catalog-candidates", "%s: the group being leased is shaped by the lease table (%s): chunks under lease are thinned out of candidate groups, so another "
                             "compactor's in-flight merged chunk - registered at level 0 and not leased - can be grouped without its leased sources, merged and swapped away; the first "
                             "compactor's swap then fails and its sources' rows exist twice" % (b.sp(a), ", ".join(via) or "load_leases"), [b.sp(a)])
            else:
                cx.passed(ck, "groups-from-catalog-candidates", [b.sp(a)], ("also shaped by %s (does not read leases)" % other) if other else None)


@rule("C03", "R9", "what is merged is what is swapped, and the swap adds nothing: merge_chunks hands its whole `paths` argument to the merger (no prefix, no slice - the callers lease, "
      "swap and delete the whole group); the swap gives the merged chunk no statistics of its own making (C12.R6, evaluated for this property: an entry pruned on statistics "
      "its rows do not satisfy is unqueryable)")
def r9(cx):
    mk, mb = cx.need_body(CMP + "merge_chunks")
    ms = M.find_calls(mb, lambda c: c == "compactor::merge::ChunkMerger::merge")
    if cx.floor("ChunkMerger::merge calls in merge_chunks", len(ms), 1, mk):
        for m in ms:
            o = M.operand_origins(mb, mb.term(m)["args"][1], at=(m, M.T))
            calls = sorted({x[1][1] for x in o if x[0] == "call"})
            whole = any(x[0] in ("arg", "upvar") and (str(x[1]) in ("paths", "2")) and x[2] == "" for x in o)
            if whole and not calls:
                cx.passed(mk, "merges-the-whole-group", [mb.sp(m)])
            else:
                cx.violation(mk, "merges-the-whole-group", "%s: the merger is given %s instead of the whole group: the callers still swap out, and schedule for deletion, every chunk of the group, so the "
                             "rows of the chunks that were not merged disappear from the catalog" % (mb.sp(m), ("a part of `paths` selected by %s" % calls) if calls else "something other than `paths`"), [mb.sp(m)])
    import importlib
    c12 = importlib.import_module("rules.C12")
    ib = len(cx.instances)
    ob0, di0 = cx.obligations, cx.discharged
    c12.r6(cx)
    cx.obligations = ob0 + len(cx.instances[ib:])
    cx.discharged = di0 + len([i for i in cx.instances[ib:] if i["verdict"] == "holds"])


@rule("C03", "R10", "the merged chunk's registered time range is computed over ALL its rows: Compactor::timestamp_bounds takes the minimum and the maximum with the aggregate kernels "
      "(arrow::compute::min / max) over the timestamp column - not from the first and last row (sources of a level >= 1 group can overlap in time, so the last row need not hold the "
      "largest timestamp), because time-range lookups and retention trust that range")
def r10(cx):
    fk = CMP + "timestamp_bounds"
    b = cx.body(fk)
    if b is None:
        cx.violation(fk, "anchor-missing", "body not found", [])
        return
    mins = [bi for bi, t in b.calls() if re.search(r"(compute|aggregate)::min$", t["callee"])]
    maxs = [bi for bi, t in b.calls() if re.search(r"(compute|aggregate)::max$", t["callee"])]
    picks = [bi for bi, t in b.calls() if re.search(r"PrimitiveArray::<T>::(value|value_unchecked)$|::(first|last)$", t["callee"])]
    ok_exits = [e for e in M.exit_defs(b) if e[2] == "ok"]
    cx.floor("Ok exits of timestamp_bounds", len(ok_exits), 1, fk)
    bad = None
    for (bi, si, _) in ok_exits:
        if si == M.T:
            continue
        rv = b.blocks[bi]["stmts"][si]["rv"]
        if rv["k"] != "agg" or not rv.get("ops"):
            continue
        o = M.operand_origins(b, rv["ops"][0], at=(bi, si), adapters=M.PURE_ADAPTERS | {tt["callee"] for _, tt in b.calls() if tt["callee"].startswith(("std::option::Option::", "std::result::Result::"))})
        srcs = {x[1][0] for x in o if x[0] == "call"}
        if not (srcs & set(mins)) or not (srcs & set(maxs)) or (srcs & set(picks)):
            bad = (bi, si)
    if mins and maxs and not picks and not bad:
        cx.passed(fk, "bounds-from-min-max-kernels", [b.sp(mins[0]), b.sp(maxs[0])])
    else:
        sp = b.sp(*bad) if bad else b.j["span"]
        cx.violation(fk, "bounds-from-min-max-kernels", "%s: the time range registered for a merged chunk is not the min / max over the whole timestamp column (%s): rows above the registered maximum are "
                     "pruned from time-range lookups and can be dropped early by retention" % (sp, "it reads individual rows" if picks else "no aggregate kernel feeds it"), [sp])
