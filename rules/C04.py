"""C04 Query answers equal a full scan of everything ingested.
Decided: that the pruning inputs over-approximate where that is a matter of code shape - the time-bound extractor
(KNOWN FINDINGS: wall-clock default window, OR treated like AND, equality overwrites), its operator tables, the
observation-only index path - plus, by inclusion, the chunk-selection rules of C07 / C12 and the per-query binding
rules of C10 (a query must be evaluated over exactly the chunks selected for it).  SQL semantics are DataFusion's."""
from engine import hir as H
from engine import mir as M
from engine.core import rule

ENG = "query::engine::QueryEngine::"
ETR = ENG + "extract_time_range"
ETE = ENG + "extract_time_from_expr"


def _last(p):
    return (p or "").rsplit("::", 1)[-1]


@rule("C04", "R1", "unknown bound means unbounded: no value derived from the wall clock reaches the TimeRange used for chunk selection while the extractor can fail to see a bound")
def r1(cx):
    ck, b = cx.need_body(ETR)
    tr = M.find_calls(b, lambda c: c == "metadata::TimeRange::new")
    if not cx.floor("TimeRange::new in extract_time_range", len(tr), 1, ck):
        return
    for t in tr:
        org = set()
        for a in b.term(t)["args"]:
            org |= M.operand_origins(b, a, at=(t, M.T), adapters=M.PURE_ADAPTERS | {"std::option::Option::<T>::unwrap_or", "chrono::DateTime::<Tz>::timestamp_nanos_opt"})
        if M.has_call(org, lambda c: c.endswith("Utc::now") or c.endswith("now_nanos")):
            cx.violation(ck, "default-window-from-wall-clock", "%s: when no literal bound is recognised the window defaults to the last hour of wall-clock time: `timestamp > now() - interval '2 hours' "
                         "AND timestamp <= now()` (nothing extracted) silently scans only the last hour" % b.sp(t), [b.sp(t)])
        else:
            cx.passed(ck, "default-window-from-wall-clock", [b.sp(t)])


@rule("C04", "R2", "a disjunction is not a conjunction: extract_time_from_expr passes its own accumulators to itself only under AND")
def r2(cx):
    h = cx.hir(ETE)
    acc = [p.get("name") for p in h["params"][1:3]]
    n = 0
    for i in H.walk(h["tree"]):
        if i.get("k") != "if":
            continue
        c = H.strip(i["cond"])
        if c.get("k") != "match" or "Operator" not in (c.get("sty") or ""):
            continue
        rec = [x for x in H.walk(i["then"]) if x.get("k") == "call" and H.path_of(x["f"]) == ETE and any(H.is_local(H.strip(a), acc[0]) for a in x["args"])]
        if not rec:
            continue
        n += 1
        vs = set()
        for arm in c["arms"]:
            body = H.strip(arm["body"])
            if body.get("k") == "lit" and body.get("v") is True:
                vs |= {_last(H.pat_path(a)) if H.pat_path(a) else "_" for a in H.pat_alts(arm["pat"])}
        if vs <= {"And"}:
            cx.passed(ETE, "recursion-only-under-and", [i["sp"]])
        else:
            cx.violation(ETE, "recursion-under-or", "%s: both sides of %s feed the same accumulators: `timestamp < 10 OR timestamp > 100` yields the window (100, 10) and matching chunks "
                         "are not scanned" % (i["sp"], sorted(vs - {"And"})), [i["sp"]])
    for m in H.walk(h["tree"]):
        if m.get("k") == "match" and "Operator" in (m.get("sty") or ""):
            for arm in m["arms"]:
                rec = [x for x in H.walk(arm["body"]) if x.get("k") == "call" and H.path_of(x["f"]) == ETE]
                if rec:
                    n += 1
                    vs = {_last(H.pat_path(a)) for a in H.pat_alts(arm["pat"])}
                    if vs <= {"And"}:
                        cx.passed(ETE, "recursion-only-under-and", [arm["sp"]])
                    else:
                        cx.violation(ETE, "recursion-under-or", "%s: both sides of %s feed the same accumulators" % (arm["sp"], sorted(vs - {"And"})), [arm["sp"]])
    cx.floor("recursive descents of extract_time_from_expr", n, 1, ETE)


def _op_arms(h):
    """[(direct|reversed, {variant: (accumulator, combiner)})] for the two `match binary.op` blocks"""
    out = []
    for i in H.walk(h["tree"]):
        if i.get("k") != "if" or i["cond"].get("k") != "let":
            continue
        init = i["cond"]["init"]
        side = None
        for x in H.walk(init):
            if x.get("k") == "field" and x["name"] in ("left", "right"):
                side = x["name"]
        if side is None or not any(_last(H.pat_path(p) or "") == "Column" for p in [i["cond"]["pat"]] + [y for y in H.walk(i["cond"]["pat"]) if y.get("k", "").startswith("p")]):
            continue
        for m in H.walk(i["then"]):
            if m.get("k") == "match" and "Operator" in (m.get("sty") or ""):
                tab = {}
                for arm in m["arms"]:
                    asg = [a for a in H.walk(arm["body"]) if a.get("k") == "assign"]
                    for alt in H.pat_alts(arm["pat"]):
                        v = _last(H.pat_path(alt)) if H.pat_path(alt) else "_"
                        accs = []
                        for a in asg:
                            tgt = [x["name"] for x in H.walk(a["l"]) if x.get("k") == "local"]
                            comb = [x["name"] for x in H.walk(a["r"]) if x.get("k") == "mcall" and x["name"] in ("min", "max")]
                            accs.append((tgt[0] if tgt else "?", comb[0] if comb else "assign"))
                        tab.setdefault(v, (accs, arm["sp"]))
                out.append(("direct" if side == "left" else "reversed", tab, m["sp"]))
                break
    return out


@rule("C04", "R3", "a bound is combined, never overwritten: every arm that sets an accumulator widens it with its previous value (lower bounds by min, upper bounds by max)")
def r3(cx):
    h = cx.hir(ETE)
    lo, hi = [p.get("name") for p in h["params"][1:3]]
    n = 0
    for side, tab, sp in _op_arms(h):
        for v, (accs, asp) in tab.items():
            for (tgt, comb) in accs:
                n += 1
                want = "min" if tgt == lo else "max"
                if comb == want:
                    cx.passed(ETE, "combine:%s:%s" % (side, v), [asp])
                elif comb == "assign":
                    cx.violation(ETE, "eq-overwrites-bounds" if v == "Eq" else "overwrites-bound:%s:%s" % (side, v), "%s: the %s arm assigns `%s` outright: `timestamp = 5 OR timestamp = 10` (or any earlier bound) "
                                 "is forgotten and the window covers only the last literal seen" % (asp, v, tgt), [asp])
                else:
                    cx.violation(ETE, "narrowing-combination:%s:%s" % (side, v), "%s: `%s` is combined with %s instead of %s: the window shrinks below what the predicate admits" % (asp, tgt, comb, want), [asp])
    cx.floor("accumulator assignments in the operator arms", n, 6, ETE)


@rule("C04", "R4", "operator tables: `timestamp > / >= v` sets the lower bound and `< / <=` the upper bound; with the literal on the left the table is mirrored")
def r4(cx):
    h = cx.hir(ETE)
    lo, hi = [p.get("name") for p in h["params"][1:3]]
    arms = _op_arms(h)
    if not cx.floor("operator matches (direct and reversed)", len(arms), 2, ETE):
        return
    want = {"direct": {"Gt": lo, "GtEq": lo, "Lt": hi, "LtEq": hi}, "reversed": {"Lt": lo, "LtEq": lo, "Gt": hi, "GtEq": hi}}
    for side, tab, sp in arms:
        bad = {}
        for v, acc in want[side].items():
            got = {t for (t, c) in tab.get(v, ([], ""))[0]}
            if got != {acc}:
                bad[v] = sorted(got)
        if bad:
            cx.violation(ETE, "bound-table:%s" % side, "%s: for `%s` the comparison operators set the wrong bound %s (expected %s): the selected window excludes chunks holding matching rows" % (
                sp, "timestamp OP literal" if side == "direct" else "literal OP timestamp", bad, {k: v for k, v in want[side].items() if k in bad}), [sp])
        else:
            cx.passed(ETE, "bound-table:%s" % side, [sp])


@rule("C04", "R5", "index usage tracking is observation only: execute_with_indexes plans the caller's SQL text unchanged through the read-only planner and returns that plan's rows")
def r5(cx):
    ck, b = cx.need_body(ENG + "execute_with_indexes")
    plans = M.find_calls(b, lambda c: c == ENG + "plan_read_only")
    if not cx.floor("planning calls in execute_with_indexes", len(plans), 1, ck):
        return
    for p in plans:
        org = M.operand_origins(b, b.term(p)["args"][1], at=(p, M.T))
        if all(x[0] == "upvar" and "sql" in str(x[1]) for x in org if x[0] in ("upvar", "call", "arg", "bin")) and any(x[0] == "upvar" for x in org):
            cx.passed(ck, "plans-callers-sql-unchanged", [b.sp(p)])
        else:
            cx.violation(ck, "plans-callers-sql-unchanged", "%s: the statement planned for execution is not the caller's SQL text as given (rewritten / hinted): the answer can differ from the plain path" % b.sp(p), [b.sp(p)])
    cols = M.find_calls(b, lambda c: c.endswith("DataFrame::collect"))
    oks = [(bi, si) for (bi, si, cls) in M.exit_defs(b) if cls == "ok" and si != M.T]
    good = False
    for (bi, si) in oks:
        rv = b.blocks[bi]["stmts"][si]["rv"]
        if rv["k"] == "agg" and rv["ops"]:
            o = M.operand_origins(b, rv["ops"][0], at=(bi, si))
            if any(x[0] == "call" and x[1][0] in cols for x in o):
                good = True
    if good:
        cx.passed(ck, "returns-collected-rows", [b.sp(c) for c in cols])
    else:
        cx.violation(ck, "returns-collected-rows", "execute_with_indexes does not return the rows collected from the planned statement", [])
    # everything else it calls on the controller is get_* / record_*
    bad = [t["callee"] for bi, t in b.calls() if "adaptive_index" in t["callee"] and not any(s in t["callee"].rsplit("::", 1)[1] for s in ("get_", "record_", "clone", "deref"))]
    if bad:
        cx.violation(ck, "index-path-observes-only", "execute_with_indexes calls %s on the index controller: the index path must only observe" % bad[0], [])
    else:
        cx.passed(ck, "index-path-observes-only", [])


def _include(cx, mod, fns, label):
    import importlib
    m = importlib.import_module("rules." + mod)
    before, ib = len(cx.violations), len(cx.instances)
    ob0, di0 = cx.obligations, cx.discharged
    for f in fns:
        getattr(m, f)(cx)
    cx.obligations = ob0 + len(cx.instances[ib:])
    cx.discharged = di0 + len([i for i in cx.instances[ib:] if i["verdict"] == "holds"])


@rule("C04", "R6", "chunk selection skips only chunks that cannot contribute: the time-range lookup rules of C07 (bucket indexing, inclusive overlap, inverted-range guard, lookup shape, removal) "
      "and the statistics-pruning rules of C12 (sound arms, unknown = may match, gate, SQL -> predicate conversion), evaluated for this property")
def r6(cx):
    _include(cx, "C07", ["r1", "r2", "r3", "r4", "r5"], "time-range lookup")
    _include(cx, "C12", ["r1", "r2", "r3", "r4", "r5", "r6", "r7"], "statistics pruning")


@rule("C04", "R7", "a query is evaluated over exactly the chunks selected for it: the registration rules of C10 that the current code satisfies (serialised registration, short-cut only on the "
      "same set, execution only after the query's own registration)")
def r7(cx):
    _include(cx, "C10", ["r2", "r3", "r5"], "per-query binding")


@rule("C04", "R8", "the answer does not depend on cache temperature: the transparency rules of C16 (key = object path, only fetched content inserted, every tier keyed, options bypass, "
      "invalidation of every tier, no answer without a lookup), evaluated for this property")
def r8(cx):
    _include(cx, "C16", ["r1", "r2", "r3", "r4", "r5", "r6"], "cache transparency")
