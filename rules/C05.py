"""C05 WAL recovery is exact under torn writes; sequence numbers never regress.
Decided: the reader's stop-at-first-bad-record shape, writer/reader agreement on the frame layout,
torn-tail truncation on open, next_seq bounded below by the flushed mark, truncation guards,
and the assignment discipline of sequence numbers.  Not decided: byte-level exactness per cut offset."""
import re

from engine import hir as H
from engine import mir as M
from engine.core import rule

W = "ingester::wal::"
READER = W + "read_entries_and_valid_len"


def _payload_bool_edges(b, call_block):
    """for a call returning Result<bool>: (edges where the result is Ok(true), every other out-edge of the
    switches involved)"""
    R, _ = M.result_locals(b, call_block)
    s, f = M.outcome_edges(b, call_block)
    good, other = set(), set(f)
    found = False
    for sw in M.bool_switches(b):
        r = sw["root"]
        # root: assign `_x = copy ((R as Ok).0)`  (bool payload), possibly the switch tests the place directly
        t = b.term(sw["block"])
        pl = None
        if r and r[2] == "assign" and r[3]["rv"]["k"] == "use" and r[3]["rv"]["o"]["k"] in ("copy", "move"):
            pl = r[3]["rv"]["o"]["pl"]
        if pl is None and t["discr"]["k"] in ("copy", "move"):
            pl = t["discr"]["pl"]
        if pl is not None and pl["l"] in R and any(isinstance(p, dict) and p.get("dc") == "Ok" for p in (pl.get("p") or [])):
            good.add(sw["true_edge"])
            other.add(sw["false_edge"])
            found = True
    if not found:
        # direct switch on the payload place (no temp)
        for bi, blk in enumerate(b.blocks):
            t = blk["term"]
            if t["k"] == "switch" and t.get("dty") == "bool" and t["discr"]["k"] in ("copy", "move"):
                pl = t["discr"]["pl"]
                if pl["l"] in R and any(isinstance(p, dict) and p.get("dc") == "Ok" for p in (pl.get("p") or [])) and t["values"] == [0]:
                    good.add((bi, t["otherwise"]))
                    other.add((bi, t["targets"][0]))
                    found = True
    return (good if found else set()), other, s


def _reader_conds(cx, b, ck, floors=True):
    conds = []  # (name, must-edges, escape-edges, site)
    reads = M.find_calls(b, lambda c: c == W + "read_exact_or_eof")
    if floors:
        cx.floor("read_exact_or_eof calls in the reader", len(reads), 2, ck)
    for i, rb in enumerate(reads):
        good, other, s = _payload_bool_edges(b, rb)
        conds.append(("full-read#%d" % i, good, other, b.sp(rb)))
    decs = M.find_calls(b, lambda c: c == W + "decode_header")
    if floors:
        cx.floor("decode_header calls in the reader", len(decs), 1, ck)
    for db in decs:
        s, f = M.outcome_edges(b, db)
        conds.append(("header-decoded", s, f, b.sp(db)))
    is_crc_calc = lambda o: M.has_call(o, lambda c: c.endswith("Hasher::finalize"))
    is_crc_hdr = lambda o: any(x[0] == "call" and x[1][1] == W + "decode_header" and M.strip_unwraps(x[2]).endswith(".3") for x in o)
    eq, used = M.edges_implying(b, "eq", is_crc_calc, is_crc_hdr)
    ne = set()
    for sw in used:
        ne |= {sw["true_edge"], sw["false_edge"]} - eq
    conds.append(("crc-equal", eq, ne, b.sp(used[0]["block"]) if used else "?"))
    return conds


@rule("C05", "R1", "the reader stops at the first bad record: an entry is pushed (and counted as valid prefix) only after a full header read, "
      "a successful header decode, a full payload read and an equal CRC; every failure edge leaves the loop")
def r1(cx):
    ck, b = cx.need_body(READER)
    pushes = [bi for bi in M.find_calls(b, lambda c: c == "std::vec::Vec::<T, A>::push")
              if any(o[0] == "agg" and "WalEntry" in str(o[1][2]) for a in b.term(bi)["args"][1:] for o in M.operand_origins(b, a))]
    if not cx.floor("entries.push(WalEntry) sites", len(pushes), 1, ck):
        return
    conds = _reader_conds(cx, b, ck)
    sinks = [("push", p) for p in pushes]
    for (cname, must, esc, site) in conds:
        if not must:
            cx.violation(ck, cname, "%s: the reader does not branch on this check any more (%s)" % (site, cname), [site])
            continue
        bad = [p for (_, p) in sinks if not b.dominated_by_edges(p, must)]
        if bad:
            cx.violation(ck, cname, "%s: entries.push is reachable without passing the '%s' check (a partial or corrupt record would be returned)" % (b.sp(bad[0]), cname),
                         [b.sp(bad[0]), site])
            continue
        # failure edges must leave the loop: the push is not reachable from them
        leak = []
        for e in esc:
            reach = b.reachable(e[1])
            if any(p in reach for (_, p) in sinks) or e[1] in [p for (_, p) in sinks]:
                leak.append(e)
        if leak:
            cx.violation(ck, cname + ":stops", "%s: after a failed '%s' check the reader keeps going and can still push later records (must stop at the first bad record)"
                         % (b.sp(leak[0][0]), cname), [b.sp(leak[0][0])])
        else:
            cx.passed(ck, cname, [site, b.sp(pushes[0])], "dominates push; %d failure edges leave the loop" % len(esc))
    # ... and ONLY at a bad record: every way out of the record loop is one of those failure edges (clean EOF, short header, undecodable header, short payload,
    # CRC mismatch).  A further stop condition the writer does not enforce (e.g. "length implausible") makes a record the writer acknowledged unreadable
    p0 = pushes[0]
    fwd = b.reachable(p0)
    scc = {x for x in fwd if p0 in b.reachable(x)} | {p0}
    explained = set()
    for (cname, must, esc, site) in conds:
        explained |= set(esc)
    # an exit is explained if it IS a failure edge or lies behind one without re-entering the loop
    behind = set()
    for e in explained:
        behind |= {e[1]} | b.reachable(e[1])
    unexplained = []
    for u in sorted(scc):
        if b.is_cleanup(u):
            continue
        for v in b.succs(u):
            if v in scc or b.is_cleanup(v) or b.term(v)["k"] == "unreachable":
                continue
            if (u, v) in explained or u in behind:
                continue
            # error propagation out of the function (an I/O error is not a stop-and-keep-the-prefix)
            if not ({e[0] for e in M.exit_defs(b) if e[2] != "err"} & (b.reachable(v) | {v})):
                continue
            unexplained.append((u, v))
    if unexplained:
        cx.violation(ck, "stops-only-at-bad-records", "%s: the record loop can be left - keeping the prefix read so far - on a condition that is none of short read, undecodable header and CRC "
                     "mismatch: a record the writer wrote and acknowledged is treated as the end of the log, it and everything after it are not recovered (and open() cuts them off)" % b.sp(unexplained[0][0]),
                     [b.sp(unexplained[0][0])])
    else:
        cx.passed(ck, "stops-only-at-bad-records", [b.sp(p0)], "%d loop exits, all on failure edges of the %d record checks" % (len(explained), len(conds)))
    # what is pushed is what was read: seq from the decoded header, payload = the buffer that was CRC-checked
    for p in pushes:
        t = b.term(p)
        aggs = [o for a in t["args"][1:] for o in M.operand_origins(b, a) if o[0] == "agg" and "WalEntry" in str(o[1][2])]
        (abi, asi, _) = aggs[0][1]
        rv = b.blocks[abi]["stmts"][asi]["rv"]
        f = dict(zip(rv["fields"], rv["ops"]))
        so = M.operand_origins(b, f["seq"]) if "seq" in f else set()
        if any(x[0] == "call" and x[1][1] == W + "decode_header" and M.strip_unwraps(x[2]).endswith(".0") for x in so):
            cx.passed(ck, "entry-seq-from-header", [b.sp(abi, asi)])
        else:
            cx.violation(ck, "entry-seq-from-header", "%s: WalEntry.seq does not come from position 0 of decode_header" % b.sp(abi, asi), [b.sp(abi, asi)])


def _range_key(i):
    i = H.strip(i)
    if i.get("k") == "struct" and (i["path"].get("path") or "").endswith("ops::Range"):
        f = dict((x[0], x[1]) for x in i["fields"])
        if f["start"].get("k") == "lit" and f["end"].get("k") == "lit":
            return (f["start"]["v"], f["end"]["v"])
    if i.get("k") == "lit" and i.get("t") == "int":
        return (i["v"], i["v"] + 1)
    return None


BYTES_RX = re.compile(r"core::num::<impl (u\d+|i\d+)>::(to|from)_(le|be|ne)_bytes")


@rule("C05", "R2", "writer and reader agree on the frame: byte ranges, integer widths and endianness of seq / len / crc (and magic, version, flags) "
      "in encode_header equal those in decode_header; ranges are disjoint and end at HEADER_LEN; the CRC covers the payload on both sides")
def r2(cx):
    he = cx.hir(W + "encode_header")
    hd = cx.hir(W + "decode_header")
    params = [p.get("name") for p in he["params"]]
    if len(params) < 3:
        cx.violation(W + "encode_header", "anchor-missing:params", "encode_header no longer takes (seq, flags, payload)", [])
        return
    p_seq, p_flags, p_payload = params[0], params[1], params[2]
    enc = {}
    for n in H.walk(he["tree"]):
        if n.get("k") == "mcall" and n["name"] == "copy_from_slice" and H.strip(n["recv"]).get("k") == "index":
            rk = _range_key(H.strip(n["recv"])["i"])
            arg = n["args"][0]
            what, width, endian = None, None, None
            for m in H.walk(arg):
                if m.get("k") == "mcall" and BYTES_RX.match(m.get("def") or ""):
                    g = BYTES_RX.match(m["def"])
                    width, endian = g.group(1), g.group(3)
                    inner = list(H.walk(m["recv"]))
                    if any(H.is_local(x, p_seq) for x in inner):
                        what = "seq"
                    elif any(x.get("k") == "mcall" and x["name"] == "len" and any(H.is_local(y, p_payload) for y in H.walk(x["recv"])) for x in inner):
                        what = "len"
                    elif any(x.get("k") == "mcall" and x["name"] == "finalize" for x in inner):
                        what = "crc"
            if what is None and H.path_of(H.strip(arg)) == W + "MAGIC":
                what = "magic"
            enc[what or ("?%s" % (rk,))] = (rk, width, endian, n.get("sp"))
        elif n.get("k") == "assign" and H.strip(n["l"]).get("k") == "index":
            rk = _range_key(H.strip(n["l"])["i"])
            r = H.strip(n["r"])
            if H.path_of(r) == W + "VERSION":
                enc["version"] = (rk, "u8", None, n.get("sp"))
            elif H.is_local(r, p_flags):
                enc["flags"] = (rk, "u8", None, n.get("sp"))
    # CRC over the payload (writer)
    upd = [n for n in H.walk(he["tree"]) if n.get("k") == "mcall" and n["name"] == "update"]
    crc_w = bool(upd) and all(H.is_local(H.strip(u["args"][0]), p_payload) for u in upd)
    # decoder: which tuple position is read from which range
    dec_by_name = {}
    body = hd["tree"]
    for st in body.get("stmts", []):
        if st.get("k") == "slet" and st["pat"].get("k") == "pbind" and st.get("init") is not None:
            nm = st["pat"]["name"]
            for n in H.walk(st["init"]):
                if n.get("k") == "call" and BYTES_RX.match(H.path_of(n["f"]) or ""):
                    g = BYTES_RX.match(H.path_of(n["f"]))
                    idx = [x for x in H.walk(n) if x.get("k") == "index"]
                    if idx:
                        dec_by_name[nm] = (_range_key(idx[0]["i"]), g.group(1), g.group(3), n.get("sp"))
            init = H.strip(st["init"])
            if init.get("k") == "index" and nm not in dec_by_name:
                dec_by_name[nm] = (_range_key(init["i"]), "u8", None, st.get("sp"))
    tl = H.tail(body)
    pos = []
    p, args = H.ctor_call(tl)
    if p and p.endswith("Ok") and args and args[0].get("k") == "tup":
        pos = [H.term(x) for x in args[0]["es"]]
    dec = {}
    for i, nm in enumerate(pos):
        if nm in dec_by_name:
            dec[i] = dec_by_name[nm]
    # magic / version comparisons in the decoder
    for n in H.walk(body):
        if n.get("k") == "bin" and n["op"] in ("!=", "=="):
            for side, oth in ((n["a"], n["b"]), (n["b"], n["a"])):
                ix = [x for x in H.walk(side) if x.get("k") == "index"]
                if ix and H.path_of(H.strip(oth)) == W + "MAGIC":
                    dec["magic"] = (_range_key(ix[0]["i"]), None, None, n.get("sp"))
                if ix and H.path_of(H.strip(oth)) == W + "VERSION":
                    dec["version"] = (_range_key(ix[0]["i"]), "u8", None, n.get("sp"))
    # reader's use of positions (MIR): seq=.0 (R1), len=.2 -> payload size, crc=.3 compared (R1)
    ck, b = cx.need_body(READER)
    len_pos_ok = False
    for bi, t in b.calls():
        if t["callee"].endswith("from_elem") or "from_elem" in t["callee"]:
            for a in t["args"]:
                if any(x[0] == "call" and x[1][1] == W + "decode_header" and M.strip_unwraps(x[2]).endswith(".2") for x in M.operand_origins(b, a)):
                    len_pos_ok = True
    if len_pos_ok:
        cx.passed(ck, "payload-length-from-position-2", [])
    else:
        cx.violation(ck, "payload-length-from-position-2", "the reader's payload buffer is not sized by position 2 of decode_header", [])
    upd_r = [bi for bi in M.find_calls(b, lambda c: c.endswith("Hasher::update"))]
    crc_r = False
    for bi in upd_r:
        o = M.operand_origins(b, b.term(bi)["args"][1])
        if any(x[0] == "call" and "from_elem" in x[1][1] for x in o):
            crc_r = True
    pairs = [("seq", 0), ("flags", 1), ("len", 2), ("crc", 3), ("magic", "magic"), ("version", "version")]
    for what, dpos in pairs:
        e = enc.get(what)
        d = dec.get(dpos)
        if e is None or d is None or e[0] is None or d[0] is None:
            cx.violation(W + "encode_header", "frame:%s" % what, "cannot locate the %s field in %s (fail closed)" % (what, "encode_header" if e is None or e[0] is None else "decode_header"), [])
            continue
        ok = e[0] == d[0] and (e[1] == d[1] or d[1] is None or e[1] is None) and (e[2] == d[2])
        if ok:
            cx.passed(W + "encode_header", "frame:%s" % what, [e[3], d[3]], "bytes %s %s %s" % (e[0], e[1], e[2]))
        else:
            cx.violation(W + "encode_header", "frame:%s" % what,
                         "writer puts %s at bytes %s as %s/%s, reader takes it from bytes %s as %s/%s: a record written by one is not read back by the other"
                         % (what, e[0], e[1], e[2], d[0], d[1], d[2]), [e[3], d[3]])
    # layout sanity: disjoint, contiguous to HEADER_LEN
    rs = sorted(v[0] for k, v in enc.items() if v[0] is not None)
    hl = cx.lib.consts.get(W + "HEADER_LEN", {}).get("int")
    disjoint = all(rs[i][1] <= rs[i + 1][0] for i in range(len(rs) - 1))
    if rs and disjoint and hl is not None and rs[-1][1] == hl and rs[0][0] == 0:
        cx.passed(W + "encode_header", "frame:layout", [], "%s, HEADER_LEN=%s" % (rs, hl))
    else:
        cx.violation(W + "encode_header", "frame:layout", "header fields %s overlap, leave a gap at the ends, or disagree with HEADER_LEN=%s" % (rs, hl), [])
    if crc_w and crc_r:
        cx.passed(W + "encode_header", "crc-covers-payload", [])
    else:
        cx.violation(W + "encode_header", "crc-covers-payload", "the CRC is not computed over the payload on the %s side" % ("writer" if not crc_w else "reader"), [])


OPEN = W + "WriteAheadLog::open"


@rule("C05", "R3", "a torn tail is cut off on reopen: in WriteAheadLog::open every Ok exit is preceded by File::set_len(valid prefix) on the "
      "active segment's file, or by the test showing the file is not longer than its valid prefix")
def r3(cx):
    ck, b = cx.need_body(OPEN)
    is_valid = lambda o: M.has_call(o, lambda c: c in (W + "valid_prefix_len", READER))
    is_size = lambda o: M.has_call(o, lambda c: c.endswith("Metadata::len"))
    # edges on which current_size <= valid_len
    le_edges, used = M.edges_implying(b, "le", is_size, is_valid)
    sets = M.find_calls(b, lambda c: c.endswith("fs::File::set_len"))
    if not sets:
        cx.violation(ck, "set_len-on-open", "WriteAheadLog::open never truncates the active segment (File::set_len): appending after a torn record hides every later entry from the reader", [])
        return
    if not used:
        cx.violation(ck, "set_len-on-open", "open does not compare the segment's size with its valid prefix", [b.sp(sets[0])])
        return
    must = set(le_edges)
    ok_args = True
    agg_file = None
    for (bi, si, st) in M.aggregates(b, lambda rv: rv.get("ak") == "adt" and rv.get("adt") == W + "WriteAheadLog"):
        f = dict(zip(st["rv"]["fields"], st["rv"]["ops"]))
        agg_file = M.operand_origins(b, f["file"])
    file_calls = {o[1] for o in (agg_file or set()) if o[0] == "call"}
    for sb in sets:
        t = b.term(sb)
        s, f = M.outcome_edges(b, sb)
        must |= s
        ao = M.operand_origins(b, t["args"][1], at=(sb, M.T))
        if not is_valid(ao):
            ok_args = False
            cx.violation(ck, "set_len-argument", "%s: set_len is not given the valid-prefix length" % b.sp(sb), [b.sp(sb)])
        ro = M.operand_origins(b, t["args"][0])
        if file_calls and not ({o[1] for o in ro if o[0] == "call"} & file_calls):
            ok_args = False
            cx.violation(ck, "set_len-receiver", "%s: set_len is applied to a file other than the one the log keeps appending to" % b.sp(sb), [b.sp(sb)])
    exits = [e for e in M.exit_defs(b) if e[2] != "err"]
    bad = [e for e in exits if not b.dominated_by_edges(e[0], must)]
    if bad:
        cx.violation(ck, "set_len-on-open", "%s: open can succeed with the active segment longer than its valid prefix (no truncation on this path)" % b.sp(bad[0][0], bad[0][1]),
                     [b.sp(bad[0][0], bad[0][1])])
    elif ok_args:
        cx.passed(ck, "set_len-on-open", [b.sp(sets[0])], "every Ok exit passes size<=valid or a successful set_len(valid)")
    # the valid prefix is what R1 guards: the accumulator only grows next to the push
    rk, rb = cx.need_body(READER)
    pushes = M.find_calls(rb, lambda c: c == "std::vec::Vec::<T, A>::push")
    adds = []
    for bi, blk in enumerate(rb.blocks):
        if blk.get("cleanup"):
            continue
        for si, st in enumerate(blk["stmts"]):
            rv = st["rv"]
            if rv["k"] == "bin" and rv["op"] in ("Add", "AddWithOverflow"):
                oa = M.operand_origins(rb, rv["b"]) | M.operand_origins(rb, rv["a"])
                if M.has_call(oa, lambda c: c.endswith("::len")) and any(o[0] == "const" for o in oa) and rb.locals[st["lhs"]["l"]]["ty"].startswith(("u64", "(u64")):
                    adds.append((bi, si))
    if not adds:
        cx.violation(rk, "valid-prefix-accumulator", "cannot find where the reader accumulates the valid prefix length", [])
    else:
        conds = _reader_conds(cx, rb, rk, floors=False)
        bad = [(a, c[0]) for a in adds for c in conds if not c[1] or not rb.dominated_by_edges(a[0], c[1])]
        if not bad:
            cx.passed(rk, "valid-prefix-accumulator", [rb.sp(a[0], a[1]) for a in adds], "grows only after all four record checks")
        else:
            cx.violation(rk, "valid-prefix-accumulator", "%s: the valid-prefix length grows before the '%s' check (open would keep a corrupt or partial record and append after it)"
                         % (rb.sp(bad[0][0][0], bad[0][0][1]), bad[0][1]), [rb.sp(a[0], a[1]) for a in adds])


def _same_guards(b, blk, pushes):
    """blk lies between the last check and a push: blk reaches a push, and the push is not reachable from entry avoiding blk"""
    for p in pushes:
        if (blk == p or b.reaches(blk, p)) and (blk == p or p not in b.reachable(0, removed_blocks={blk})):
            return True
    return False


@rule("C05", "R4", "numbering is bounded below by the flushed mark: next_seq stored by open is max(last surviving seq, flushed mark) + 1")
def r4(cx):
    ck, b = cx.need_body(OPEN)
    aggs = M.aggregates(b, lambda rv: rv.get("ak") == "adt" and rv.get("adt") == W + "WriteAheadLog")
    if not cx.floor("WriteAheadLog aggregates in open", len(aggs), 1, ck):
        return
    MAX = {"std::cmp::Ord::max", "core::cmp::Ord::max", "std::cmp::max", "core::cmp::max"}
    for (bi, si, st) in aggs:
        f = dict(zip(st["rv"]["fields"], st["rv"]["ops"]))
        org = M.operand_origins(b, f["next_seq"], adapters=M.PURE_ADAPTERS | MAX | {"std::option::Option::<T>::unwrap_or", "std::option::Option::<T>::map_or"})
        has_fl = M.has_call(org, lambda c: c == W + "load_flushed_seq")
        has_last = M.has_call(org, lambda c: c in (W + "last_sequence_in_segments", W + "last_sequence_for_segment"))
        org2 = M.operand_origins(b, f["next_seq"])
        via_max = M.has_call(org2, lambda c: c in MAX)
        plus1 = any(o[0] == "bin" and o[1][2] in ("Add", "AddWithOverflow") for o in org) and any(o[0] == "const" and o[1] == "1" for o in org)
        if has_fl and has_last and via_max and plus1:
            cx.passed(ck, "next_seq-above-flushed-mark", [b.sp(bi, si)], "max(last, flushed) + 1")
        else:
            miss = [n for n, v in (("load_flushed_seq", has_fl), ("last surviving sequence", has_last), ("max", via_max), ("+ 1", plus1)) if not v]
            cx.violation(ck, "next_seq-above-flushed-mark", "%s: next_seq does not depend on %s: after a crash at rotation and a truncation, new entries can be numbered at or below the flushed mark and are skipped by recovery"
                         % (b.sp(bi, si), ", ".join(miss)), [b.sp(bi, si)])


@rule("C05", "R5", "truncation spares the active segment and unflushed entries: remove_file only where segment.id < current_segment_id and last_seq < seq")
def r5(cx):
    ck, b = cx.need_body(W + "WriteAheadLog::truncate_before")
    rms = M.find_calls(b, lambda c: c.endswith("fs::remove_file"))
    if not cx.floor("remove_file sites in truncate_before", len(rms), 1, ck):
        return
    seg_id = lambda o: any(x[0] == "call" and x[1][1] == W + "list_segments" and M.strip_unwraps(x[2]).endswith(".id") for x in o)
    cur_id = lambda o: M.has_field(o, None, ".current_segment_id")
    last_seq = lambda o: M.has_call(o, lambda c: c == W + "last_sequence_for_segment")
    seq_par = lambda o: any((x[0] == "upvar" and x[1] == "seq") or (x[0] == "arg" and x[1] == 2) for x in o)
    e1, u1 = M.edges_implying(b, "lt", seg_id, cur_id)
    e2, u2 = M.edges_implying(b, "lt", last_seq, seq_par)
    for rb in rms:
        for name, e, u, msg in (("active-segment-spared", e1, u1, "segment.id < current_segment_id"), ("unflushed-spared", e2, u2, "last_seq < seq")):
            if e and b.dominated_by_edges(rb, e):
                cx.passed(ck, name, [b.sp(rb), b.sp(u[0]["block"])], msg)
            else:
                cx.violation(ck, name, "%s: remove_file is reachable without %s being established (%s)" % (
                    b.sp(rb), msg, "the active segment or an entry that was not flushed yet can be deleted"), [b.sp(rb)])
    # only truncate_before removes WAL files
    others = [(k, c) for k, c in cx.prog.sites(lambda c: c.endswith("fs::remove_file") or c.endswith("fs::remove_dir_all"), within=[k for k in cx.prog.calls if k.startswith("ingester::")])
              if not k.startswith(W + "WriteAheadLog::truncate_before")]
    for k, c in others:
        cx.violation(k, "wal-file-removed-elsewhere", "%s: %s removes files in the ingester outside truncate_before" % (c["sp"], k), [c["sp"]])


@rule("C05", "R6", "strictly increasing assignment: append_payload returns and writes the pre-increment next_seq, and next_seq += 1 precedes every exit")
def r6(cx):
    ck, b = cx.need_body(W + "WriteAheadLog::append_payload")
    incs = []
    for bi, blk in enumerate(b.blocks):
        if blk.get("cleanup"):
            continue
        for si, st in enumerate(blk["stmts"]):
            lhs = M.pl_str(st["lhs"])
            rv = st["rv"]
            if lhs.endswith(".next_seq"):
                org = M.operand_origins(b, rv["o"]) if rv["k"] == "use" else set()
                # `x = Add(next_seq, 1)` then `next_seq = move x.0`
                okinc = any(o[0] == "bin" and o[1][2] in ("Add", "AddWithOverflow") for o in org) and any(o[0] == "const" and o[1] == "1" for o in org) \
                    and M.has_field(org, None, ".next_seq")
                incs.append((bi, si, okinc))
    if not incs:
        cx.violation(ck, "increment", "append_payload no longer advances next_seq", [])
        return
    if not all(i[2] for i in incs):
        cx.violation(ck, "increment", "%s: next_seq is assigned something other than next_seq + 1" % b.sp(incs[0][0], incs[0][1]), [b.sp(i[0], i[1]) for i in incs])
    exits = M.exit_defs(b)
    inc_blocks = {i[0] for i in incs}
    bad = [e for e in exits if e[0] not in inc_blocks and not b.dominated_by_blocks(e[0], inc_blocks)]
    if bad:
        cx.violation(ck, "increment-before-exit", "%s: an exit of append_payload is reachable without advancing next_seq (the same number can be handed out twice)" % b.sp(bad[0][0], bad[0][1]),
                     [b.sp(bad[0][0], bad[0][1])])
    else:
        cx.passed(ck, "increment-before-exit", [b.sp(incs[0][0], incs[0][1])], "%d exits" % len(exits))
    # returned number = number written into the header = pre-increment read
    ok_ops = []
    for (bi, si, cls) in exits:
        if cls == "ok" and si != M.T:
            rv = b.blocks[bi]["stmts"][si]["rv"]
            if rv["k"] == "agg":
                ok_ops.append((bi, si, rv["ops"][0]))
    encs = M.find_calls(b, lambda c: c == W + "encode_header")
    if not ok_ops or not encs:
        cx.violation(ck, "returned-seq", "cannot locate Ok(seq) / encode_header in append_payload (fail closed)", [])
        return
    for (bi, si, op) in ok_ops:
        ro = M.operand_origins(b, op, at=(bi, si))
        eo = M.operand_origins(b, b.term(encs[0])["args"][0], at=(encs[0], M.T))
        r_field = M.has_field(ro, None, ".next_seq") and not any(o[0] == "bin" for o in ro)
        e_field = M.has_field(eo, None, ".next_seq") and not any(o[0] == "bin" for o in eo)
        if r_field and e_field:
            cx.passed(ck, "returned-seq", [b.sp(bi, si), b.sp(encs[0])], "pre-increment next_seq is both written and returned")
        else:
            cx.violation(ck, "returned-seq", "%s: the sequence number returned to the caller (%s) or written to the header (%s) is not the pre-increment next_seq"
                         % (b.sp(bi, si), "ok" if r_field else "differs", "ok" if e_field else "differs"), [b.sp(bi, si), b.sp(encs[0])])


@rule("C05", "R7", "the highest sequence number stays recoverable: callers pass truncate_before the flushed mark, or mark + 1 only when that mark is "
      "already on disk (otherwise a crash between truncation and persisting the mark lets numbering restart below acknowledged entries)")
def r7(cx):
    from rules.C01 import truncate_callers
    truncate_callers(cx)


@rule("C05", "R8", "entries come back in order and only the unflushed ones: segments are ordered by their numeric id, every read walks them in that order, and read_entries_after keeps "
      "exactly the entries with seq > mark")
def r8(cx):
    lk = W + "list_segments"
    b = cx.body(lk)
    if b is None:
        cx.violation(lk, "anchor-missing", "body not found", [])
        return
    sorts = [(bi, t) for bi, t in b.calls() if re.search(r"slice::<impl \[T\]>::sort(_unstable)?(_by_key|_by)?$", t["callee"])]
    ok = False
    for bi, t in sorts:
        for a in t["args"][1:]:
            clo = a.get("closure")
            if not clo and a["k"] in ("copy", "move"):
                for (dbi, dsi, dk, pay) in b.defs().get(a["pl"]["l"], []):
                    if dk == "assign" and pay["rv"]["k"] == "agg" and pay["rv"].get("ak") == "closure":
                        clo = pay["rv"]["def"]
            cb = cx.body(clo) if clo else None
            if cb is not None:
                reads_id = any(M.pl_str(st["rv"].get("pl", st["rv"].get("o", {}).get("pl", {"l": 0}))).endswith(".id") for blk in cb.blocks for st in blk["stmts"] if st["rv"]["k"] in ("use", "ref"))
                if reads_id:
                    ok = True
    exits = [e for e in M.exit_defs(b) if e[2] != "err"]
    if ok and sorts and all(b.dominated_by_blocks(e[0], {s[0] for s in sorts}) for e in exits):
        cx.passed(lk, "segments-ordered-by-id", [b.sp(sorts[0][0])])
    else:
        cx.violation(lk, "segments-ordered-by-id", "list_segments does not return the segments sorted by their numeric id: recovery replays entries out of order and `last` is not the active segment", [])
    rk = W + "WriteAheadLog::read_entries_after"
    rb = cx.body(rk)
    if rb is None:
        cx.violation(rk, "anchor-missing", "body not found", [])
        return
    pushes = M.find_calls(rb, lambda c: c == "std::vec::Vec::<T, A>::push")
    is_seq = lambda o: any(x[0] == "call" and x[1][1] == READER.replace("read_entries_and_valid_len", "read_entries_from_path") and M.strip_unwraps(x[2]).endswith(".seq") for x in o) or \
        any(x[2].endswith(".seq") for x in o if x[0] == "call")
    is_mark = lambda o: any(x[0] == "arg" and x[1] == 2 for x in o)
    gt, used = M.edges_implying(rb, "lt", is_mark, is_seq)
    # exactness: the other side of the same switch is `seq <= mark`; pushes only on gt, and nothing else filters
    if pushes and gt and all(rb.dominated_by_edges(p, gt) for p in pushes) and len(used) == 1:
        cx.passed(rk, "replay-filter-strict", [rb.sp(p) for p in pushes])
    else:
        cx.violation(rk, "replay-filter-strict", "read_entries_after does not keep exactly the entries with seq > mark (a >= would replay the last flushed entry again; an extra condition would drop "
                     "unflushed ones)", [rb.sp(p) for p in pushes])
    for fn in ("read_entries_after", "read_entries"):
        bb = cx.body(W + "WriteAheadLog::" + fn)
        if bb is None:
            continue
        ls = M.find_calls(bb, lambda c: c == lk)
        rd = M.find_calls(bb, lambda c: c == W + "read_entries_from_path")
        it = [n for n in M.find_calls(bb, lambda c: c == "std::iter::Iterator::next") if M.has_call(M.operand_origins(bb, bb.term(n)["args"][0], at=(n, M.T)), lambda c: c == lk)]
        rev = M.find_calls(bb, lambda c: c.endswith("Iterator::rev") or c.endswith("::reverse"))
        if ls and rd and it and not rev:
            cx.passed(W + "WriteAheadLog::" + fn, "walks-segments-in-listed-order", [bb.sp(rd[0])])
        else:
            cx.violation(W + "WriteAheadLog::" + fn, "walks-segments-in-listed-order", "%s does not read the segments in the order list_segments returns them" % fn, [])


LASTSEQ = W + "last_sequence_in_segments"


def _inner_option(b, bi, si):
    """'None' / 'Some' / None(unknown) for the payload of an `Ok(..)` aggregate assigned at (bi, si)"""
    if si == M.T:
        return None
    rv = b.blocks[bi]["stmts"][si].get("rv") or {}
    if rv.get("k") != "agg" or not rv.get("ops"):
        return None
    o = rv["ops"][0]
    l = o.get("pl", {}).get("l") if o.get("k") in ("move", "copy") else None
    if l is None:
        return None
    vs = set()
    for (dbi, dsi, k, pay) in b.defs().get(l, []):
        if k == "assign" and pay["rv"].get("k") == "agg" and pay["rv"].get("adt", "").endswith("Option"):
            vs.add(pay["rv"].get("variant"))
        else:
            vs.add("?")
    return vs.pop() if len(vs) == 1 and "?" not in vs else None


@rule("C05", "R9", "numbering is above every record on disk: open hands the complete segment list to last_sequence_in_segments, which answers `none` only after the walk over ALL "
      "segments (newest first) is exhausted and answers `some` only with the last sequence of a listed segment - no segment holding acknowledged entries is left unread")
def r9(cx):
    ok_, ob = cx.need_body(OPEN)
    sites = M.find_calls(ob, lambda c: c == LASTSEQ)
    if cx.floor("last_sequence_in_segments calls in open", len(sites), 1, ok_):
        for x in sites:
            o = M.operand_origins(ob, ob.term(x)["args"][0], at=(x, M.T))
            calls = {c[1][1] for c in o if c[0] == "call"}
            if calls == {W + "list_segments"} and all(M.strip_unwraps(c[2]) == "" for c in o if c[0] == "call"):
                cx.passed(ok_, "whole-segment-list", [ob.sp(x)])
            else:
                cx.violation(ok_, "whole-segment-list", "%s: the segments searched for the last sequence number are not the complete list_segments result (%s): a record in an omitted "
                             "segment can carry a sequence number that is handed out again" % (ob.sp(x), sorted(calls)), [ob.sp(x)])
    ck, b = cx.need_body(LASTSEQ)
    nexts = []
    for bi, t in b.calls():
        if not t["callee"].endswith("::next"):
            continue
        o = M.operand_origins(b, t["args"][0], at=(bi, M.T))
        if o and all(x[0] == "arg" and x[1] == 1 and x[2] == "" for x in o):
            nexts.append(bi)
    if not nexts:
        cx.violation(ck, "walks-all-segments", "%s: last_sequence_in_segments does not iterate over its whole `segments` argument: segments it does not read can hold acknowledged "
                     "entries whose sequence numbers are then handed out again" % b.j["span"], [b.j["span"]])
        return
    newest_first = all("iter::Rev<" in b.term(n)["callee"] or "iter::Rev<" in (b.term(n).get("resolved") or "") for n in nexts)
    if newest_first:
        cx.passed(ck, "newest-first", [b.sp(nexts[0])])
    else:
        cx.violation(ck, "newest-first", "%s: the first segment with data found by this walk is not the newest one: its last sequence is below records in later segments" % b.sp(nexts[0]), [b.sp(nexts[0])])
    none_edges = set()
    for n in nexts:
        none_edges |= M.outcome_edges(b, n)[1]
    exits = [e for e in M.exit_defs(b) if e[2] == "ok"]
    cx.floor("Ok exits of last_sequence_in_segments", len(exits), 2, ck)
    for (bi, si, _) in exits:
        v = _inner_option(b, bi, si)
        if v == "Some":
            rv = b.blocks[bi]["stmts"][si]["rv"]
            o = M.operand_origins(b, rv["ops"][0], at=(bi, si))
            src = [c for c in o if c[0] == "call" and c[1][1] == W + "last_sequence_for_segment"]
            good = bool(src)
            for c in src:
                ao = M.operand_origins(b, b.term(c[1][0])["args"][0], at=(c[1][0], M.T))
                if not any(x[0] == "arg" and x[1] == 1 and M.strip_unwraps(x[2]).endswith(".path") for x in ao):
                    good = False
            if good:
                cx.passed(ck, "some-is-a-listed-segments-last", [b.sp(bi, si)])
            else:
                cx.violation(ck, "some-is-a-listed-segments-last", "%s: the sequence returned is not last_sequence_for_segment of a segment of the list" % b.sp(bi, si), [b.sp(bi, si)])
        else:
            if none_edges and b.dominated_by_edges(bi, none_edges):
                cx.passed(ck, "none-only-after-all-segments", [b.sp(bi, si)])
            else:
                cx.violation(ck, "none-only-after-all-segments", "%s: `no sequence found` (or an answer of unknown shape) is returned before every segment has been examined: acknowledged entries in an older "
                             "segment are ignored and numbering restarts at or below them - recovery then sees duplicate or regressing sequence numbers" % b.sp(bi, si), [b.sp(bi, si)])


@rule("C05", "R10", "writer and reader of the flushed-mark file agree on ONE format: persist_flushed_seq writes the eight little-endian bytes of the sequence number and nothing else; "
      "load_flushed_seq obtains its value from u64::from_le_bytes only, under a length test for exactly 8 (a second, length-ambiguous encoding - e.g. decimal text, which is 8 "
      "bytes long for eight-digit marks - is misread as the other one and recovery skips every unflushed entry)")
def r10(cx):
    wk, wb = cx.need_body(W + "persist_flushed_seq")
    rk, rb = cx.need_body(W + "load_flushed_seq")
    if wb is None or rb is None:
        return
    ws = M.find_calls(wb, lambda c: c in ("std::fs::write", "std::io::Write::write_all") or c.endswith("fs::write"))
    if cx.floor("writes in persist_flushed_seq", len(ws), 1, wk):
        for w in ws:
            o = M.operand_origins(wb, wb.term(w)["args"][1], at=(w, M.T), stop_at=lambda t: bool(BYTES_RX.search(t["callee"])))
            enc = sorted({x[1][1] for x in o if x[0] == "call"})
            if enc and all(re.search(r"<impl u64>::to_le_bytes$", e) for e in enc):
                cx.passed(wk, "mark-file-writer-le-u64", [wb.sp(w)])
            else:
                cx.violation(wk, "mark-file-writer-le-u64", "%s: the flushed mark is not written as u64::to_le_bytes (it goes through %s): the reader's 8-byte little-endian arm misreads any other "
                             "encoding that happens to be 8 bytes long" % (wb.sp(w), enc or "no integer encoding"), [wb.sp(w)])
    decs = sorted({t["callee"] for _, t in rb.calls() if BYTES_RX.search(t["callee"]) or re.search(r"::parse$|FromStr::from_str$|from_str_radix$|from_utf8", t["callee"])})
    if decs and all(re.search(r"<impl u64>::from_le_bytes$", d) for d in decs):
        cx.passed(rk, "mark-file-reader-le-u64-only", [rb.j["span"]], decs)
    else:
        cx.violation(rk, "mark-file-reader-le-u64-only", "%s: load_flushed_seq decodes the mark through %s: with more than one accepted encoding the length test no longer identifies the format" % (
            rb.j["span"], decs or "nothing recognisable"), [rb.j["span"]])


@rule("C05", "R11", "segments are written in append mode: open_segment opens the file with OpenOptions::append(true) - open() cuts a torn tail with set_len, which does not move a plain "
      "write handle's position; without append mode the next record lands past the cut, leaves a zero-filled hole the reader stops at, and everything acknowledged after the "
      "reopen is lost at the following one")
def r11(cx):
    fk = W + "open_segment"
    ck = cx.prog.code_key(fk)
    b = cx.body(ck)
    if b is None:
        cx.violation(fk, "anchor-missing", "body not found", [])
        return
    opens = [bi for bi, t in b.calls() if t["callee"].endswith("OpenOptions::open")]
    apps = [bi for bi, t in b.calls() if t["callee"].endswith("OpenOptions::append") and len(t["args"]) > 1 and t["args"][1].get("k") == "const" and t["args"][1].get("int") == 1]
    if not cx.floor("OpenOptions::open in open_segment", len(opens), 1, ck):
        return
    if apps and all(any(b.reaches(a, o) for a in apps) for o in opens):
        cx.passed(fk, "append-mode", [b.sp(apps[0])])
    else:
        cx.violation(fk, "append-mode", "%s: the segment file is not opened with append(true): after open() shortened a torn tail the next append is written at the stale position, past the cut" % b.sp(opens[0]), [b.sp(opens[0])])
