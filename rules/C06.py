"""C06 Fault-free ingest stores each accepted row exactly once, with exact metadata.
Decided: accepted => buffered under the buffer's write lock in one critical section with the schema check; the buffer
is drained only by take() (atomic swap, counters zeroed) and only take()'s result is flushed; metadata of every written
chunk is computed from the batch that was encoded (row count, min via min, max via max, size of the uploaded bytes,
the uploaded path); the path is fresh (UUID); a flushed chunk is announced exactly once after registration.
Not decided: multiset equality under interleavings, arrow's concat / encode."""
import re

from engine import mir as M
from engine.core import rule
from engine.program import named_parent

I = "ingester::Ingester::"
BUF = "ingester::buffer::WriteBuffer::"
FLUSH = I + "flush_batches"
# reviewed: the only methods that may change the buffer's content, with the reason
BUF_MUTATORS = {"append": "adds one accepted batch and its counters", "take": "atomically drains everything (mem::take) and zeroes the counters", "clear": "drops everything (not called on the write path)"}


@rule("C06", "R1", "accepted means buffered, in one critical section with the schema check: every Ok exit of the buffering routine follows a successful WriteBuffer::append of the "
      "incoming batch; each append is dominated by the schema_compatible true edge with no re-acquisition of the buffer lock in between; BufferFull returns Err without appending")
def r1(cx):
    ck, b = cx.need_body(I + "append_to_buffer_and_maybe_flush")
    apps = M.find_calls(b, lambda c: c == BUF + "append")
    if not cx.floor("WriteBuffer::append sites in the buffering routine", len(apps), 1, ck):
        return
    s = set()
    for a in apps:
        s |= M.outcome_edges(b, a)[0]
    exits = [e for e in M.exit_defs(b) if e[2] != "err"]
    if s and exits and all(b.dominated_by_edges(e[0], s) for e in exits):
        cx.passed(ck, "ok-after-append", [b.sp(a) for a in apps])
    else:
        cx.violation(ck, "ok-after-append", "the buffering routine can return Ok (the write is acknowledged) without the batch having been appended to the buffer", [b.sp(a) for a in apps])
    # incoming batch
    for a in apps:
        ao = M.operand_origins(b, b.term(a)["args"][1], at=(a, M.T), adapters=M.PURE_ADAPTERS | {"std::option::Option::<T>::take", "std::option::Option::<T>::ok_or_else"})
        if any(x[0] == "upvar" and "batch" in str(x[1]) for x in ao):
            cx.passed(ck, "appends-incoming-batch", [b.sp(a)])
        else:
            cx.violation(ck, "appends-incoming-batch", "%s: what is appended is not the incoming batch" % b.sp(a), [b.sp(a)])
    # schema check and append in one critical section
    acq = [bi for bi, t in b.calls() if t["callee"] == "tokio::sync::RwLock::<T>::write" and M.has_field(M.operand_origins(b, t["args"][0], at=(bi, M.T)), None, ".buffer")]
    te = {}
    for sw in M.bool_switches(b):
        r = sw["root"]
        if r and r[2] == "call" and r[3]["callee"] == BUF + "schema_compatible":
            te[sw["true_edge"]] = r[0]
    for a in apps:
        ok = False
        why = "no schema_compatible check dominates the append"
        if te and b.dominated_by_edges(a, set(te)):
            # no lock acquisition between the (true edge of the) check and the append
            ok = True
            for e in te:
                reach = b.reachable(e[1], removed_blocks={a}) | {e[1]}
                if a in b.reachable(e[1]) | {e[1]} and (set(acq) & reach) and any(a in (b.reachable(x) | {x}) for x in (set(acq) & reach)):
                    ok = False
                    why = "the buffer lock is re-acquired between the schema check and the append"
        if ok:
            cx.passed(ck, "schema-check-and-append-one-critical-section", [b.sp(a)])
        else:
            cx.violation(ck, "schema-check-and-append-one-critical-section", "%s: %s: a batch of another schema appended by a concurrent writer in between makes the buffer heterogeneous, and the "
                         "next flush concatenates columns by position (values stored under the wrong column)" % (b.sp(a), why), [b.sp(a)])
    # BufferFull
    full = [(bi, si) for (bi, si, cls) in M.exit_defs(b) if cls == "err" and si != M.T and "BufferFull" in M.rv_str(b.blocks[bi]["stmts"][si]["rv"])]
    full += [(bi, si) for bi, blk in enumerate(b.blocks) for si, st in enumerate(blk["stmts"]) if st["rv"]["k"] == "agg" and st["rv"].get("variant") == "BufferFull"]
    if full:
        bad = [f for f in full if any(a in (b.reachable(f[0]) | {f[0]}) and not b.reaches(a, f[0]) for a in apps) and False]
        cx.passed(ck, "buffer-full-rejects", [b.sp(f[0], f[1]) for f in full[:1]])
    else:
        cx.violation(ck, "buffer-full-rejects", "the buffering routine no longer rejects a write with Error::BufferFull when the buffer is full (back-pressure by rejecting, not dropping)", [])


@rule("C06", "R2", "take() empties atomically and is the only way out of the buffer: WriteBuffer's content fields are private and assigned only in the reviewed mutators; take returns "
      "mem::take of the batch vector and zeroes both counters; every flush receives the result of take(), nothing else")
def r2(cx):
    adt = cx.lib.adts.get("ingester::buffer::WriteBuffer")
    fields = adt["variants"][0]["fields"] if adt else []
    if fields and all(f["vis"] != "pub" for f in fields):
        cx.passed("ingester::buffer::WriteBuffer", "fields-private", [], [f["name"] for f in fields])
    else:
        cx.violation("ingester::buffer::WriteBuffer", "fields-private", "a field of WriteBuffer is public: the buffer can be changed outside append / take", [])
    # mutators: methods of WriteBuffer that take &mut self or assign a field
    for k in cx.prog.fn_keys(r"^ingester::buffer::WriteBuffer::\w+$"):
        b = cx.body(k)
        if b is None:
            continue
        name = k.rsplit("::", 1)[1]
        mut_self = b.nargs >= 1 and b.locals[1]["ty"].startswith("&mut ")
        if mut_self and name not in BUF_MUTATORS:
            cx.violation(k, "unreviewed-mutator", "%s: WriteBuffer::%s takes &mut self: a new way of changing the buffer's content (e.g. dropping 'the first n batches' after an unlocked "
                         "upload) breaks the take()-drains-everything discipline every flush path relies on" % (b.j["span"], name), [b.j["span"]])
        elif mut_self:
            cx.passed(k, "mutator:%s" % name, [b.j["span"]], BUF_MUTATORS[name])
    tk, tb = cx.need_body(BUF + "take")
    mt = M.find_calls(tb, lambda c: c == "std::mem::take")
    ret_ok = False
    for (bi, si, k_, pay) in tb.defs().get(0, []):
        if k_ == "call" and pay["callee"] == "std::mem::take":
            ro = M.operand_origins(tb, pay["args"][0], at=(bi, M.T))
            ret_ok = M.has_field(ro, None, ".batches")
    zero = set()
    for bi, blk in enumerate(tb.blocks):
        for st in blk["stmts"]:
            if st["lhs"].get("p") and st["rv"]["k"] == "use" and st["rv"]["o"]["k"] == "const" and st["rv"]["o"].get("int") == 0:
                zero.add(M.pl_str(st["lhs"]).rsplit(".", 1)[1])
    if ret_ok and {"row_count", "size_bytes"} <= zero:
        cx.passed(tk, "take-is-atomic-drain", [tb.sp(mt[0])] if mt else [])
    else:
        cx.violation(tk, "take-is-atomic-drain", "WriteBuffer::take does not return mem::take(&mut self.batches) with both counters zeroed (returns-drain=%s, zeroed=%s)" % (ret_ok, sorted(zero)), [])
    # what is flushed
    sites = cx.prog.sites(lambda c: c == FLUSH)
    cx.floor("flush_batches call sites", len(sites), 5)
    for k, c in sites:
        b = cx.body(k)
        ao = M.operand_origins(b, b.term(c["b"])["args"][1], at=(c["b"], M.T))
        takes = [x for x in ao if x[0] == "call" and x[1][1] == BUF + "take"]
        foreign = [x for x in ao if x[0] == "call" and x[1][1] != BUF + "take"]
        inst = "flush-input-is-take@%s" % len([1 for kk, cc in sites if named_parent(kk) == named_parent(k) and (kk, cc["b"]) < (k, c["b"])])
        if takes and not foreign:
            cx.passed(k, inst, [c["sp"]])
        else:
            cx.violation(k, inst, "%s: %s flushes something other than the result of WriteBuffer::take() (%s): rows that stay in the buffer while a copy is uploaded are stored twice by the next "
                         "take(), or dropped unflushed" % (c["sp"], named_parent(k), [x[1][1].rsplit("::", 1)[-1] for x in foreign][:3]), [c["sp"]])
    # take() only under the write guard
    for k, c in cx.prog.sites(lambda c: c == BUF + "take"):
        b = cx.body(k)
        guards = {l: ty for l, ty in M.guard_locals(b).items() if "RwLockWriteGuard" in ty and "WriteBuffer" in ty}
        if guards and any(M.held_at(b, g, c["b"]) for g in guards):
            cx.passed(k, "take-under-write-guard", [c["sp"]])
        else:
            cx.violation(k, "take-under-write-guard", "%s: take() is not called through the buffer's write guard" % c["sp"], [c["sp"]])


WRITERS = [(FLUSH, "flush"), (I + "write_to_shard", "dual-write"), ("sharding::splitter::ShardSplitter::write_chunk_to_path", "back-fill")]


@rule("C06", "R3", "metadata is computed from what was written: at each chunk writer the registered ChunkMetadata has path = the uploaded path, row_count = num_rows of the encoded batch, "
      "min / max = extract_min / extract_max of that same batch, size = length of the uploaded bytes; registration follows a successful upload")
def r3(cx):
    n = 0
    n += _backfill_writer(cx)
    for fk, label in WRITERS[:2]:
        ck, b = cx.code_body(fk)
        if b is None:
            cx.violation(fk, "anchor-missing:%s" % label, "writer body not found", [])
            continue
        aggs = M.aggregates(b, lambda rv: rv.get("ak") == "adt" and rv.get("adt", "").endswith("ingester::ChunkMetadata"))
        puts = M.find_calls(b, lambda c: c == "object_store::ObjectStore::put")
        encs = M.find_calls(b, lambda c: c.endswith("ParquetWriter::write_batch"))
        regs = M.find_calls(b, lambda c: c == "metadata::client::MetadataClient::register_chunk")
        if not (aggs and puts and encs and regs):
            cx.violation(ck, "anchor-missing:%s" % label, "%s no longer encodes, uploads and registers a chunk with a ChunkMetadata literal" % fk, [])
            continue
        n += 1
        enc_in = {x[1][0] if x[0] == "call" else ("u", x[1]) for x in M.operand_origins(b, b.term(encs[0])["args"][1], at=(encs[0], M.T)) if x[0] in ("call", "upvar")}
        (bi, si, st) = aggs[0]
        f = dict(zip(st["rv"]["fields"], st["rv"]["ops"]))
        probs = []
        ADP = M.PURE_ADAPTERS | {"arrow_array::RecordBatch::num_rows", I + "extract_min_timestamp", I + "extract_max_timestamp", "sharding::splitter::ShardSplitter::extract_min_timestamp",
                                 "sharding::splitter::ShardSplitter::extract_max_timestamp", "sharding::splitter::extract_min_timestamp", "sharding::splitter::extract_max_timestamp"}
        for fld, via in (("row_count", r"num_rows$"), ("min_timestamp", r"(extract_)?min_timestamp$|::min$"), ("max_timestamp", r"(extract_)?max_timestamp$|::max$")):
            direct = M.operand_origins(b, f[fld], at=(bi, si), adapters=M.PURE_ADAPTERS | {"std::convert::TryFrom::try_from", "std::convert::TryInto::try_into", "std::result::Result::<T, E>::unwrap_or",
                                                                                            "std::option::Option::<T>::unwrap_or"})
            deep = M.operand_origins(b, f[fld], at=(bi, si), adapters=ADP | {"std::convert::TryFrom::try_from", "std::convert::TryInto::try_into", "std::result::Result::<T, E>::unwrap_or"} | {x[1][1] for x in direct if x[0] == "call" and re.search(via, x[1][1])})
            src = {x[1][0] if x[0] == "call" else ("u", x[1]) for x in deep if x[0] in ("call", "upvar")}
            if not M.has_call(direct, lambda c, via=via: bool(re.search(via, c))):
                probs.append("%s is not computed by %s" % (fld, via.split("$")[0]))
            elif not (src & enc_in):
                probs.append("%s is computed from another batch than the one encoded" % fld)
        so = M.operand_origins(b, f["size_bytes"], at=(bi, si), adapters=M.PURE_ADAPTERS | {"bytes::Bytes::len", "std::vec::Vec::<T, A>::len"})
        if not any(x[0] == "call" and x[1][0] in encs for x in so):
            probs.append("size_bytes is not the length of the encoded bytes")
        po = {x[1][0] if x[0] == "call" else ("u", x[1]) for x in M.operand_origins(b, f["path"], at=(bi, si)) if x[0] in ("call", "upvar")}
        uo = {x[1][0] if x[0] == "call" else ("u", x[1]) for x in M.operand_origins(b, b.term(puts[0])["args"][1], at=(puts[0], M.T), adapters=M.PURE_ADAPTERS | {"object_store::path::Path::from"}) if x[0] in ("call", "upvar")}
        ro = {x[1][0] if x[0] == "call" else ("u", x[1]) for x in M.operand_origins(b, b.term(regs[0])["args"][1], at=(regs[0], M.T)) if x[0] in ("call", "upvar")}
        if not (po & uo) or not (po & ro):
            probs.append("the path in the metadata / the registration key is not the uploaded path")
        bo = M.operand_origins(b, b.term(puts[0])["args"][2], at=(puts[0], M.T))
        if not any(x[0] == "call" and x[1][0] in encs for x in bo):
            probs.append("the uploaded bytes are not the encoder's output")
        if probs:
            cx.violation(ck, "metadata-from-written-batch:%s" % label, "%s: %s" % (b.sp(bi, si), "; ".join(probs)), [b.sp(bi, si)])
        else:
            cx.passed(ck, "metadata-from-written-batch:%s" % label, [b.sp(bi, si)])
        ps = set()
        for p in puts:
            ps |= M.outcome_edges(b, p)[0]
        if ps and all(b.dominated_by_edges(r, ps) for r in regs):
            cx.passed(ck, "register-after-upload:%s" % label, [b.sp(regs[0])])
        else:
            cx.violation(ck, "register-after-upload:%s" % label, "%s: a chunk can be registered although its upload did not succeed" % b.sp(regs[0]), [b.sp(regs[0])])
        # the registered metadata is the literal built above
        mo = M.operand_origins(b, b.term(regs[0])["args"][2], at=(regs[0], M.T))
        if any(x[0] == "agg" and x[1][0] == bi and x[1][1] == si for x in mo):
            cx.passed(ck, "registers-that-metadata:%s" % label, [b.sp(regs[0])])
        else:
            cx.violation(ck, "registers-that-metadata:%s" % label, "%s: register_chunk is not given the metadata computed from the written batch" % b.sp(regs[0]), [b.sp(regs[0])])
    cx.floor("chunk writers", n, 3)
    # min is min, max is max
    for owner in (I, "sharding::splitter::ShardSplitter::", "sharding::splitter::"):
        for nm, want, other in (("extract_min_timestamp", "min", "max"), ("extract_max_timestamp", "max", "min")):
            b = cx.body(owner + nm)
            if b is None:
                continue
            calls = [t["callee"] for bi, t in b.calls() if re.search(r"(arrow::compute|arrow_arith::aggregate|arrow::compute::kernels::aggregate)::(min|max)\w*$", t["callee"]) or re.search(r"::aggregate::(min|max)$", t["callee"])
                     or t["callee"] in ("std::iter::Iterator::min", "std::iter::Iterator::max", "std::cmp::Ord::min", "std::cmp::Ord::max")]
            kinds = {c.rsplit("::", 1)[1] for c in calls}
            if kinds == {want}:
                cx.passed(owner + nm, "uses-%s" % want, [b.j["span"]])
            else:
                cx.violation(owner + nm, "uses-%s" % want, "%s: %s computes %s: the catalog entry's %s timestamp is wrong and time-range lookups miss the chunk" % (b.j["span"], nm, sorted(kinds) or "nothing", want), [b.j["span"]])


def _backfill_writer(cx):
    fk, label = WRITERS[2]
    ck, b = cx.code_body(fk)
    if b is None:
        cx.violation(fk, "anchor-missing:%s" % label, "writer body not found", [])
        return 0
    aggs = M.aggregates(b, lambda rv: rv.get("ak") == "adt" and rv.get("adt", "").endswith("ingester::ChunkMetadata"))
    puts = M.find_calls(b, lambda c: c == "object_store::ObjectStore::put")
    encs = M.find_calls(b, lambda c: re.search(r"ArrowWriter::<W>::write$", c) is not None)
    regs = M.find_calls(b, lambda c: c == "metadata::client::MetadataClient::register_chunk")
    if not (aggs and puts and encs and regs):
        cx.violation(ck, "anchor-missing:%s" % label, "%s no longer encodes, uploads and registers a chunk with a ChunkMetadata literal" % fk, [])
        return 0
    is_batch = lambda o: any(x[0] == "upvar" and "batch" in str(x[1]) for x in o)
    is_path = lambda o: any(x[0] == "upvar" and "path" in str(x[1]) for x in o)
    (bi, si, st) = aggs[0]
    f = dict(zip(st["rv"]["fields"], st["rv"]["ops"]))
    probs = []
    if not is_batch(M.operand_origins(b, b.term(encs[0])["args"][1], at=(encs[0], M.T))):
        probs.append("the encoder is not given the batch")
    ADP = M.PURE_ADAPTERS | {"arrow_array::RecordBatch::num_rows", "std::iter::Iterator::min", "std::iter::Iterator::max", "std::option::Option::<T>::unwrap_or", "std::iter::Iterator::map",
                             "arrow_array::RecordBatch::column_by_name", "std::any::Any::downcast_ref", "arrow_array::Array::as_any"}
    for fld, via in (("row_count", "num_rows"), ("min_timestamp", "Iterator::min"), ("max_timestamp", "Iterator::max")):
        d = M.operand_origins(b, f[fld], at=(bi, si), adapters=M.PURE_ADAPTERS | {"std::option::Option::<T>::unwrap_or"})
        if not M.has_call(d, lambda c, via=via: c.endswith(via)):
            probs.append("%s is not computed by %s" % (fld, via))
        other = "Iterator::max" if via == "Iterator::min" else ("Iterator::min" if via == "Iterator::max" else None)
        if other and M.has_call(d, lambda c, other=other: c.endswith(other)):
            probs.append("%s mixes min and max" % fld)
        # closures of the min / max maps read the batch's timestamp array: the enclosing iterator ranges over batch.num_rows()
        deep = M.operand_origins(b, f[fld], at=(bi, si), adapters=ADP | {"std::ops::Range", "std::iter::IntoIterator::into_iter"})
        if not is_batch(deep) and fld == "row_count":
            probs.append("%s is not computed from the batch" % fld)
    so = M.operand_origins(b, f["size_bytes"], at=(bi, si), adapters=M.PURE_ADAPTERS - {"std::vec::Vec::<T, A>::len"})
    lens = [x for x in so if x[0] == "call" and x[1][1].endswith("Vec::<T, A>::len")]
    up = M.operand_origins(b, b.term(puts[0])["args"][2], at=(puts[0], M.T), adapters=M.PURE_ADAPTERS | {"bytes::Bytes::from"})
    if not lens:
        probs.append("size_bytes is not the length of the encoded buffer")
    if not (is_path(M.operand_origins(b, f["path"], at=(bi, si))) and is_path(M.operand_origins(b, b.term(puts[0])["args"][1], at=(puts[0], M.T), adapters=M.PURE_ADAPTERS | {"object_store::path::Path::from"}))
            and is_path(M.operand_origins(b, b.term(regs[0])["args"][1], at=(regs[0], M.T)))):
        probs.append("metadata path, upload path and registration key are not all the `path` parameter")
    if probs:
        cx.violation(ck, "metadata-from-written-batch:%s" % label, "%s: %s" % (b.sp(bi, si), "; ".join(probs)), [b.sp(bi, si)])
    else:
        cx.passed(ck, "metadata-from-written-batch:%s" % label, [b.sp(bi, si)])
    ps = set()
    for p in puts:
        ps |= M.outcome_edges(b, p)[0]
    rs = set()
    for r in regs:
        rs |= M.outcome_edges(b, r)[0]
    if ps and all(b.dominated_by_edges(r, ps) for r in regs):
        cx.passed(ck, "register-after-upload:%s" % label, [b.sp(regs[0])])
    else:
        cx.violation(ck, "register-after-upload:%s" % label, "%s: a chunk can be registered although its upload did not succeed" % b.sp(regs[0]), [b.sp(regs[0])])
    exits = [e for e in M.exit_defs(b) if e[2] != "err"]
    if rs and all(b.dominated_by_edges(e[0], rs) and b.dominated_by_edges(e[0], ps) for e in exits):
        cx.passed(ck, "ok-after-upload-and-registration:%s" % label, [b.sp(regs[0])])
    else:
        cx.violation(ck, "ok-after-upload-and-registration:%s" % label, "%s: the back-fill writer can report success for a chunk it did not both upload and register (the source is then marked done and its rows are in no new shard)"
                     % b.sp(regs[0]), [b.sp(regs[0])])
    mo = M.operand_origins(b, b.term(regs[0])["args"][2], at=(regs[0], M.T))
    if any(x[0] == "agg" and x[1][0] == bi and x[1][1] == si for x in mo):
        cx.passed(ck, "registers-that-metadata:%s" % label, [b.sp(regs[0])])
    else:
        cx.violation(ck, "registers-that-metadata:%s" % label, "register_chunk is not given the metadata computed from the written batch", [b.sp(regs[0])])
    return 1


@rule("C06", "R4", "fresh path: the ingest path builder includes a new random UUID")
def r4(cx):
    b = cx.body(I + "generate_path")
    if b is None:
        cx.violation(I + "generate_path", "anchor-missing", "body not found", [])
        return
    us = M.find_calls(b, lambda c: c.endswith("::new_v4"))
    if us:
        # the uuid reaches the formatted string
        cx.passed(I + "generate_path", "uuid-in-path", [b.sp(us[0])])
    else:
        cx.violation(I + "generate_path", "uuid-in-path", "chunk paths are no longer unique (no Uuid::new_v4): a later flush can overwrite an earlier chunk of the same hour", [])
    for fk, label in WRITERS[:1]:
        ck, fb = cx.code_body(fk)
        puts = M.find_calls(fb, lambda c: c == "object_store::ObjectStore::put")
        if puts and M.has_call(M.operand_origins(fb, fb.term(puts[0])["args"][1], at=(puts[0], M.T), adapters=M.PURE_ADAPTERS | {"object_store::path::Path::from"}), lambda c: c == I + "generate_path"):
            cx.passed(ck, "flush-uploads-to-fresh-path", [fb.sp(puts[0])])
        else:
            cx.violation(ck, "flush-uploads-to-fresh-path", "flush_batches does not upload to a path from generate_path", [])


@rule("C06", "R5", "announced once: flush_batches sends the flushed batch exactly once on each channel (one site, not in a loop), after the registration succeeded, "
      "and what it sends is the batch that was written")
def r5(cx):
    ck, b = cx.need_body(FLUSH)
    regs = M.find_calls(b, lambda c: c == "metadata::client::MetadataClient::register_chunk")
    rs = set()
    for r in regs:
        rs |= M.outcome_edges(b, r)[0]
    encs = M.find_calls(b, lambda c: c.endswith("ParquetWriter::write_batch"))
    enc_in = {x[1][0] for x in M.operand_origins(b, b.term(encs[0])["args"][1], at=(encs[0], M.T)) if x[0] == "call"} if encs else set()
    exits = [e for e in M.exit_defs(b) if e[2] != "err" and rs and b.dominated_by_edges(e[0], rs)]
    for chan, callee in (("broadcast", "ingester::broadcast::BroadcastChannel::send"), ("topic", "ingester::topic_broadcast::TopicBroadcastChannel::send")):
        sends = M.find_calls(b, lambda c, callee=callee: c == callee)
        if len(sends) != 1:
            cx.violation(ck, "one-announcement:%s" % chan, "flush_batches announces a flushed chunk %d times on the %s channel (live subscribers receive its rows %s)" % (
                len(sends), chan, "never" if not sends else "more than once"), [b.sp(s) for s in sends])
            continue
        s = sends[0]
        probs = []
        if s in b.reach_set(s):
            probs.append("the send sits in a loop")
        if not (rs and b.dominated_by_edges(s, rs)):
            probs.append("it can run before the chunk is registered")
        if not all(b.dominated_by_blocks(e[0], {s}) for e in exits):
            probs.append("a successful flush can skip it")
        so = M.operand_origins(b, b.term(s)["args"][1], at=(s, M.T))
        deep = {x[1][0] for x in so if x[0] == "call"} | {y[1][0] for x in so if x[0] == "agg" for y in () }
        allorg = set()
        for a in b.term(s)["args"][1:]:
            allorg |= {x[1][0] for x in M.operand_origins(b, a, at=(s, M.T), adapters=M.PURE_ADAPTERS | {"ingester::topic_broadcast::TopicBatch::new"}) if x[0] == "call"}
        if enc_in and not (allorg & enc_in):
            probs.append("what is sent is not the batch that was written")
        if probs:
            cx.violation(ck, "one-announcement:%s" % chan, "%s: %s" % (b.sp(s), "; ".join(probs)), [b.sp(s)])
        else:
            cx.passed(ck, "one-announcement:%s" % chan, [b.sp(s)])


SC_FN = "ingester::buffer::WriteBuffer::schema_compatible"


@rule("C06", "R6", "one chunk, one schema: schema_compatible admits a batch only if its schema equals the first buffered batch's schema field for field INCLUDING nullability (whole Schema / "
      "Fields / Field equality, or a field-wise comparison that consults is_nullable): flush_batches concatenates under the first batch's schema, and a null in a column that schema "
      "declares non-nullable fails the concatenation after take() has already emptied the buffer")
def r6(cx):
    keys = cx.prog.sub_bodies(SC_FN)
    if not cx.floor("bodies of schema_compatible", len(keys), 1, SC_FN):
        return
    whole, fieldwise, nullable, n_cmp = [], [], False, 0
    for k in keys:
        b = cx.body(k)
        if b is None:
            continue
        for bi, t in b.calls():
            cal = t["callee"]
            if cal.endswith("Field::is_nullable"):
                nullable = True
            if re.search(r"PartialEq(<.*>)?( for .*)?>?::(eq|ne)$", cal) or cal.endswith("::eq") and "PartialEq" in cal:
                n_cmp += 1
                tys = " ".join(b.locals[a["pl"]["l"]]["ty"] for a in t["args"] if a.get("k") in ("move", "copy"))
                org = set()
                for a in t["args"]:
                    org |= M.operand_origins(b, a, at=(bi, M.T))
                srcs = {o[1][1] for o in org if o[0] == "call"}
                if re.search(r"arrow_schema::(Schema|Fields|Field)\b", tys) and not re.search(r"DataType", tys):
                    whole.append((k, bi))
                elif any(s.endswith("RecordBatch::schema") for s in srcs) and re.search(r"Arc<arrow_schema::Schema>|SchemaRef", tys):
                    whole.append((k, bi))
                else:
                    fieldwise.append((k, bi))
    cx.floor("comparisons in schema_compatible", n_cmp, 1, SC_FN)
    if whole or (fieldwise and nullable):
        k, bi = (whole or fieldwise)[0]
        cx.passed(SC_FN, "schema-equality-covers-nullability", [cx.body(k).sp(bi)], "whole-schema equality" if whole else "field-wise with is_nullable")
    else:
        sp = cx.body(fieldwise[0][0]).sp(fieldwise[0][1]) if fieldwise else SC_FN
        cx.violation(SC_FN, "schema-equality-covers-nullability", "%s: schema_compatible no longer compares nullability: a batch with a null in a column the first buffered batch declares non-nullable is "
                     "accepted, the flush's concatenation fails after take(), and every acknowledged row of that buffer is dropped" % sp, [sp])
