"""C07 Time-range chunk lookup is exact, on both metadata backends.
Decided: bucket indexing loop shape and constant agreement, the inclusive-overlap formula (exhaustive over
order types), the inverted-range guard, the lookup's shape (inclusive bucket scan, de-duplication, push only
on overlap, interval from the chunk map), removal from map and index.  Not decided: monotonicity of the
truncating division (hand argument in DESIGN.md), equality of the two backends on whole histories."""
import itertools

from engine import hir as H
from engine import mir as M
from engine import symeval as S
from engine.core import rule

LOC = "<metadata::local::LocalMetadataClient as metadata::client::MetadataClient>::"
S3T = "<metadata::s3::ObjectStoreMetadataClient as metadata::client::MetadataClient>::"
S3 = "metadata::s3::ObjectStoreMetadataClient::"
HB = {"metadata::local::LocalMetadataClient::hour_bucket", S3 + "hour_bucket"}
HOUR = 3_600_000_000_000


def _hb_calls_with_field(b, org, field):
    """does the origin set contain a hour_bucket call whose argument reads `.field`"""
    for o in org:
        if o[0] == "call" and o[1][1] in HB:
            t = b.term(o[1][0])
            ao = M.operand_origins(b, t["args"][0], at=(o[1][0], M.T))
            if any(x[2].endswith("." + field) or ("." + field) in x[2] for x in ao if x[0] in ("arg", "upvar", "call")):
                return True
    return False


def _index_loop(cx, key, body_key, label, field_min="min_timestamp", field_max="max_timestamp"):
    b = cx.body(body_key)
    if b is None:
        cx.violation(key, "anchor-missing:%s" % label, "body %s not found" % body_key, [])
        return
    is_bucket = lambda o: _hb_calls_with_field(b, o, field_min) and any(x[0] == "bin" and x[1][2] in ("Add", "AddWithOverflow") for x in o)
    is_end = lambda o: _hb_calls_with_field(b, o, field_max) and not _hb_calls_with_field(b, o, field_min)
    exit_e, used = M.edges_implying(b, "lt", is_end, is_bucket)
    if not used:
        cx.violation(key, "%s:bucket-loop" % label, "no loop comparing the running bucket (from hour_bucket(%s)) with hour_bucket(%s) found" % (field_min, field_max), [])
        return
    cont = set()
    for sw in used:
        cont |= {sw["true_edge"], sw["false_edge"]} - exit_e
    # the indexing effect inside the loop: a call whose key argument is the running bucket
    effects = []
    for bi, t in b.calls():
        if t["callee"] in ("std::collections::BTreeMap::<K, V, A>::entry", "std::collections::BTreeMap::<K, V, A>::get_mut", "std::collections::BTreeMap::<K, V, A>::insert"):
            if len(t["args"]) > 1 and is_bucket(M.operand_origins(b, t["args"][1], at=(bi, M.T))):
                effects.append(bi)
    if not effects:
        cx.violation(key, "%s:bucket-loop" % label, "%s: the loop does not touch the time index under the running bucket" % b.sp(used[0]["block"]), [b.sp(used[0]["block"])])
        return
    if not exit_e:
        cx.violation(key, "%s:inclusive-upper-bucket" % label, "%s: the loop does not run while bucket <= hour_bucket(%s): the last hour bucket of a chunk is not indexed "
                     "and a query that only touches that hour misses the chunk" % (b.sp(used[0]["block"]), field_max), [b.sp(used[0]["block"])])
    elif all(b.dominated_by_edges(e, cont) for e in effects):
        cx.passed(key, "%s:inclusive-upper-bucket" % label, [b.sp(used[0]["block"])] + [b.sp(e) for e in effects], "runs while bucket <= end bucket")
    else:
        cx.violation(key, "%s:inclusive-upper-bucket" % label, "%s: the index update is not guarded by bucket <= end bucket" % b.sp(effects[0]), [b.sp(effects[0])])
    # registration indexes unconditionally: the save of the catalog (or, without one, every success exit) lies behind the loop's exit edge -
    # no path updates the chunk map and skips the time index (e.g. "path already known")
    if label == "register" and exit_e:
        saves = M.find_calls(b, lambda c: c.endswith("atomic_save_catalog"))
        sinks = [(s, M.T) for s in saves] or [(e[0], e[1]) for e in M.exit_defs(b) if e[2] != "err"]
        skipping = [s for s in sinks if not b.dominated_by_edges(s[0], exit_e)]
        if skipping:
            cx.violation(key, "register:index-unconditional", "%s: the registration can be %s without the bucket loop having run: the chunk is in the chunk map but missing from (part of) the "
                         "time index, and time-range lookups skip it" % (b.sp(skipping[0][0], skipping[0][1]), "saved" if saves else "completed"), [b.sp(skipping[0][0], skipping[0][1])])
        else:
            cx.passed(key, "register:index-unconditional", [b.sp(s[0], s[1]) for s in sinks[:2]])
    # increment = the hour constant
    incs = set()
    for e in effects:
        for o in M.operand_origins(b, b.term(e)["args"][1], at=(e, M.T)):
            if o[0] == "const":
                incs.add(o[1])
    incs = {c for c in incs if c.lstrip("-").isdigit() or "NANOS_PER_HOUR" in c}
    okc = all(c == str(HOUR) or c.endswith("NANOS_PER_HOUR") for c in incs) and incs
    if okc:
        cx.passed(key, "%s:step-is-one-hour" % label, [b.sp(effects[0])], sorted(incs))
    else:
        cx.violation(key, "%s:step-is-one-hour" % label, "%s: the bucket step %s is not the hour constant the lookup uses: buckets in between are skipped" % (b.sp(effects[0]), sorted(incs)), [b.sp(effects[0])])


@rule("C07", "R1", "index every bucket: registration (and removal) walks bucket = B(min); while bucket <= B(max); bucket += H with the hour constant H "
      "equal at every definition in both backends")
def r1(cx):
    _index_loop(cx, LOC + "register_chunk", LOC + "register_chunk::{closure#0}", "register")
    reg = [k for k in cx.prog.calls if k.startswith(S3 + "atomic_register_chunk::{closure#0}::{closure#")]
    done = False
    for k in sorted(reg):
        b = cx.body(k)
        if b is not None and M.find_calls(b, lambda c: c.endswith("atomic_save_catalog")):
            _index_loop(cx, S3 + "atomic_register_chunk", k, "register")
            done = True
    if not done:
        cx.violation(S3 + "atomic_register_chunk", "anchor-missing:register", "the CAS block of atomic_register_chunk was not found", [])
    _index_loop(cx, LOC + "delete_chunk", LOC + "delete_chunk::{closure#0}", "unindex")
    # hour constants
    consts = {}
    for k in ("metadata::local::LocalMetadataClient::NANOS_PER_HOUR", S3 + "NANOS_PER_HOUR"):
        c = cx.lib.consts.get(k)
        consts[k] = c.get("int") if c else None
    for fk in sorted(HB) + [S3T + "get_chunks_with_predicates::{closure#0}", S3 + "rebuild_time_index::{closure#0}", S3T + "get_l0_candidates::{closure#0}", LOC + "get_l0_candidates::{closure#0}"]:
        b = cx.body(fk)
        if b is None:
            continue
        for blk in b.blocks:
            for st in blk["stmts"]:
                rv = st["rv"]
                if rv["k"] == "bin" and rv["op"] in ("Div", "Mul", "MulWithOverflow", "Add", "AddWithOverflow", "Rem"):
                    for o in (rv["a"], rv["b"]):
                        if o["k"] == "const" and "int" in o and abs(o["int"]) >= 10 ** 9:
                            consts["%s@%s" % (fk, st["sp"])] = o["int"]
                if rv["k"] == "use" and rv["o"]["k"] == "const" and "int" in rv["o"] and abs(rv["o"]["int"]) >= 10 ** 9:
                    consts["%s@%s" % (fk, st["sp"])] = rv["o"]["int"]
    bad = {k: v for k, v in consts.items() if v != HOUR}
    cx.floor("hour-constant definitions and uses", len(consts), 5)
    if bad:
        k = sorted(bad)[0]
        cx.violation("metadata", "hour-constants-agree", "%s = %s differs from the hour constant %d used elsewhere: registration and lookup disagree on bucket boundaries" % (k, bad[k], HOUR), sorted(bad))
    else:
        cx.passed("metadata", "hour-constants-agree", sorted(consts)[:4], "%d sites all %d" % (len(consts), HOUR))
    # bucket function = truncation to a multiple of H, same in hour_bucket and in the inlined lookup computation
    for fk in sorted(HB):
        h = cx.hir(fk)
        t = H.tail(h["tree"])
        ok = False
        if t is not None:
            t = H.strip(t)
            if t.get("k") == "bin" and t["op"] == "*":
                inner = H.strip(t["a"])
                if inner.get("k") == "bin" and inner["op"] == "/" and H.term(inner["a"]) == (h["params"][0].get("name")) and H.term(inner["b"]) == H.term(t["b"]):
                    ok = True
        if ok:
            cx.passed(fk, "bucket-function", [h["span"]], "(t / H) * H")
        else:
            cx.violation(fk, "bucket-function", "%s: hour_bucket is no longer (timestamp / H) * H" % h["span"], [h["span"]])


def _exists_x(rank4):
    """is there a value x with a<=x<=b and c<=x<=d: try x at every existing rank and between ranks"""
    vals = sorted(set(rank4.values()))
    cands = []
    for v in vals:
        cands += [v - 0.5, v, v + 0.5]
    return any(rank4["a"] <= x <= rank4["b"] and rank4["c"] <= x <= rank4["d"] for x in cands)


@rule("C07", "R2", "inclusive overlap: TimeRange::overlaps is equivalent to 'some x lies in both closed intervals' on every weak ordering of the four end points "
      "with a<=b and c<=d; contains is a<=t<=b")
def r2(cx):
    h = cx.hir("metadata::TimeRange::overlaps")
    try:
        f = S.evalb(h["tree"], S.Env())
    except S.Unsupported as e:
        cx.violation("metadata::TimeRange::overlaps", "formula", "overlaps left the comparison-only fragment: %s" % (str(e)[:150],), [h["span"]])
        return
    pn = [p.get("name") for p in h["params"]]
    f = S.subst(f, {"%s.start" % pn[0]: "a", "%s.end" % pn[0]: "b", "%s.start" % pn[1]: "c", "%s.end" % pn[1]: "d"})
    if set(S.syms(f)) - {"a", "b", "c", "d"}:
        cx.violation("metadata::TimeRange::overlaps", "formula", "overlaps reads something other than the four end points: %s" % S.show(f), [h["span"]])
        return
    pre = lambda r: r["a"] <= r["b"] and r["c"] <= r["d"]
    tot, npre, cex = H.check_orderings(["a", "b", "c", "d"], pre, lambda r: S.evaluate(f, r) == _exists_x(r))
    if cex is None:
        cx.passed("metadata::TimeRange::overlaps", "formula", [h["span"]], "%s == exists x in [a,b] and [c,d] on %d of %d orderings (a<=b, c<=d)" % (S.show(f), npre, tot))
        cx.obligations += npre - 1
        cx.discharged += npre - 1
    else:
        cx.violation("metadata::TimeRange::overlaps", "formula", "%s: overlaps (%s) is %s but the intervals %s on ordering %s" % (
            h["span"], S.show(f), S.evaluate(f, cex), "intersect" if _exists_x(cex) else "are disjoint", H.show_ordering(cex)), [h["span"]],
            {"ordering": H.show_ordering(cex)})
    hc = cx.hir("metadata::TimeRange::contains")
    try:
        g = S.evalb(hc["tree"], S.Env())
        pc = [p.get("name") for p in hc["params"]]
        g = S.subst(g, {"%s.start" % pc[0]: "a", "%s.end" % pc[0]: "b", pc[1]: "t"})
        tot, npre, cex = H.check_orderings(["a", "b", "t"], None, lambda r: S.evaluate(g, r) == (r["a"] <= r["t"] <= r["b"]))
        if cex is None:
            cx.passed("metadata::TimeRange::contains", "formula", [hc["span"]], S.show(g))
        else:
            cx.violation("metadata::TimeRange::contains", "formula", "contains (%s) is wrong on ordering %s" % (S.show(g), H.show_ordering(cex)), [hc["span"]])
    except (S.Unsupported, KeyError) as e:
        cx.violation("metadata::TimeRange::contains", "formula", "contains left the comparison-only fragment", [hc["span"]])


LOOKUPS = [(LOC + "get_chunks", LOC + "get_chunks::{closure#0}"), (S3T + "get_chunks_with_predicates", S3T + "get_chunks_with_predicates::{closure#0}")]


def _range_param(b):
    return lambda o: any(x[0] == "upvar" and x[1] == "range" for x in o)


@rule("C07", "R3", "an inverted query range is answered before it reaches BTreeMap::range (which panics on start > end) and TimeRange::overlaps (whose formula assumes c <= d)")
def r3(cx):
    for fk, bk in LOOKUPS:
        b = cx.body(bk)
        if b is None:
            cx.violation(fk, "anchor-missing:lookup", "lookup body not found", [])
            continue
        is_start = lambda o: any(x[0] == "upvar" and x[1] == "range" and x[2].endswith(".start") for x in o)
        is_end = lambda o: any(x[0] == "upvar" and x[1] == "range" and x[2].endswith(".end") for x in o)
        le, used = M.edges_implying(b, "le", is_start, is_end)
        sinks = M.find_calls(b, lambda c: c == "std::collections::BTreeMap::<K, V, A>::range" or c == "metadata::TimeRange::overlaps")
        cx.floor("range scan / overlap sites in %s" % fk.rsplit("::", 1)[1], len(sinks), 2, fk)
        for s in sinks:
            name = b.term(s)["callee"].rsplit("::", 1)[1]
            if le and b.dominated_by_edges(s, le):
                cx.passed(fk, "inverted-range-guard:%s" % name, [b.sp(s)])
            else:
                cx.violation(fk, "inverted-range-guard:%s" % name, "%s: %s is reachable with range.start > range.end (%s)" % (
                    b.sp(s), name, "BTreeMap::range panics on an inverted range" if name == "range" else "overlaps answers true for some inverted ranges"), [b.sp(s)])


@rule("C07", "R4", "lookup shape: inclusive bucket scan from B(range.start) to B(range.end), de-duplication by path, a chunk is pushed only on the true edge of "
      "overlaps(chunk interval from the chunk map, the query range)")
def r4(cx):
    for fk, bk in LOOKUPS:
        b = cx.body(bk)
        if b is None:
            continue
        scans = M.find_calls(b, lambda c: c == "std::collections::BTreeMap::<K, V, A>::range")
        for s in scans:
            org = M.operand_origins(b, b.term(s)["args"][1], at=(s, M.T), adapters=M.PURE_ADAPTERS | {"std::ops::RangeInclusive::<Idx>::new"} | HB)
            incl = any(b.term(bi)["callee"] == "std::ops::RangeInclusive::<Idx>::new" for bi, t in b.calls()
                       if any(o[0] == "call" and o[1][0] == bi for o in M.operand_origins(b, b.term(s)["args"][1], at=(s, M.T))))
            from_start = any(x[0] == "upvar" and x[1] == "range" and ".start" in x[2] for x in org)
            from_end = any(x[0] == "upvar" and x[1] == "range" and ".end" in x[2] for x in org)
            org_nb = M.operand_origins(b, b.term(s)["args"][1], at=(s, M.T), adapters=M.PURE_ADAPTERS | {"std::ops::RangeInclusive::<Idx>::new"})
            via_b = M.has_call(org_nb, lambda c: c in HB) or (any(x[0] == "bin" and x[1][2] == "Div" for x in org) and any(x[0] == "bin" and x[1][2] in ("Mul", "MulWithOverflow") for x in org))
            if incl and from_start and from_end and via_b:
                cx.passed(fk, "inclusive-bucket-scan", [b.sp(s)])
            else:
                cx.violation(fk, "inclusive-bucket-scan", "%s: the bucket scan is not B(range.start)..=B(range.end) (inclusive=%s, start=%s, end=%s, bucketed=%s): chunks in the last bucket are missed"
                             % (b.sp(s), incl, from_start, from_end, via_b), [b.sp(s)])
        ov = M.find_calls(b, lambda c: c == "metadata::TimeRange::overlaps")
        pushes = M.find_calls(b, lambda c: c == "std::vec::Vec::<T, A>::push")
        te = set()
        for sw in M.bool_switches(b):
            r = sw["root"]
            if r and r[2] == "call" and r[3]["callee"] == "metadata::TimeRange::overlaps":
                te.add(sw["true_edge"])
        for p in pushes:
            if te and b.dominated_by_edges(p, te):
                cx.passed(fk, "push-only-on-overlap", [b.sp(p)])
            else:
                cx.violation(fk, "push-only-on-overlap", "%s: a chunk can be returned without its interval overlapping the query range" % b.sp(p), [b.sp(p)])
        # operands of overlaps: one interval from the chunk map, the other the query range
        for o in ov:
            t = b.term(o)
            oa = M.operand_origins(b, t["args"][0], at=(o, M.T), adapters=M.PURE_ADAPTERS | {"metadata::TimeRange::new"})
            ob = M.operand_origins(b, t["args"][1], at=(o, M.T), adapters=M.PURE_ADAPTERS | {"metadata::TimeRange::new"})
            def from_map(x):
                return M.has_call(x, lambda c: c.endswith("::get") and ("DashMap" in c or "HashMap" in c))
            def from_q(x):
                return any(y[0] == "upvar" and y[1] == "range" for y in x)
            if (from_map(oa) and from_q(ob)) or (from_map(ob) and from_q(oa)):
                cx.passed(fk, "overlap-operands", [b.sp(o)])
            else:
                cx.violation(fk, "overlap-operands", "%s: overlaps does not compare the chunk map's interval with the query range" % b.sp(o), [b.sp(o)])
        # de-duplication: a `contains` on a set keyed by path whose true edge skips the push
        ded = False
        for sw in M.bool_switches(b):
            r = sw["root"]
            if r and r[2] == "call" and r[3]["callee"] == "std::collections::HashSet::<T, S, A>::contains":
                reach = b.reachable(sw["true_edge"][1], removed_blocks=set(M.find_calls(b, lambda c: c == "std::iter::Iterator::next")))
                if not (set(pushes) & reach) and M.find_calls(b, lambda c: c == "std::collections::HashSet::<T, S, A>::insert"):
                    ded = True
        if ded:
            cx.passed(fk, "de-duplication", [])
        else:
            cx.violation(fk, "de-duplication", "a chunk indexed under several hour buckets can be returned more than once (no seen-set skip before the push)", [])


@rule("C07", "R5", "removal unindexes: delete / compaction swap remove the path from the chunk map and from every bucket before reporting success")
def r5(cx):
    # object store: inside the CAS block of delete_chunk and complete_compaction
    for name in ("delete_chunk", "complete_compaction"):
        ks = [k for k in cx.prog.calls if k.startswith(S3T + name + "::{closure#0}::{closure#")]
        found = False
        for k in sorted(ks):
            b = cx.body(k)
            saves = M.find_calls(b, lambda c: c.endswith("atomic_save_catalog")) if b else []
            if not saves:
                continue
            found = True
            rm_map = [bi for bi in M.find_calls(b, lambda c: c == "std::collections::HashMap::<K, V, S, A>::remove")
                      if any(".chunks" in M.pl_str(x["rv"]["pl"]) for x in _ref_defs(b, b.term(bi)["args"][0]))]
            rm_idx = [bi for bi in M.find_calls(b, lambda c: c in ("std::vec::Vec::<T, A>::retain", "std::collections::BTreeMap::<K, V, A>::retain"))]
            touches_index = any(".time_index" in M.pl_str(st["rv"]["pl"]) for blk in b.blocks for st in blk["stmts"] if st["rv"]["k"] == "ref" and st["rv"].get("mut"))
            ok = rm_map and rm_idx and touches_index and all(any(b.reaches(r, s) for r in rm_map) and any(b.reaches(r, s) for r in rm_idx) for s in saves)
            if ok:
                cx.passed(S3T + name, "removes-from-map-and-index", [b.sp(rm_map[0]), b.sp(rm_idx[0])])
            else:
                cx.violation(S3T + name, "removes-from-map-and-index", "%s: the saved catalog version does not have the path removed from both the chunk map and the time index"
                             % b.sp(saves[0]), [b.sp(saves[0])])
        if not found:
            cx.violation(S3T + name, "anchor-missing:cas-block", "CAS block of %s not found" % name, [])
    # in-memory
    for name in ("delete_chunk", "complete_compaction"):
        b = cx.body(LOC + name + "::{closure#0}")
        if b is None:
            cx.violation(LOC + name, "anchor-missing", "body not found", [])
            continue
        rm = M.find_calls(b, lambda c: c == "dashmap::DashMap::<K, V, S>::remove")
        unidx = M.find_calls(b, lambda c: c in ("std::vec::Vec::<T, A>::retain", "std::collections::BTreeMap::<K, V, A>::retain"))
        # removal may be delegated to this backend's delete_chunk (judged on its own above)
        deleg = M.find_calls(b, lambda c: c.endswith("MetadataClient::delete_chunk") or c.endswith("LocalMetadataClient::delete_chunk"))
        if deleg:
            rm = rm or deleg
            unidx = unidx or deleg
        if rm and unidx:
            cx.passed(LOC + name, "removes-from-map-and-index", [b.sp(rm[0]), b.sp(unidx[0])])
        else:
            cx.violation(LOC + name, "removes-from-map-and-index", "the in-memory %s no longer removes the path from %s" % (name, "the chunk map" if not rm else "the time index"), [])


def _ref_defs(b, op):
    out = []
    if op["k"] in ("copy", "move"):
        for (bi, si, k, pay) in b.defs().get(op["pl"]["l"], []):
            if k == "assign" and pay["rv"]["k"] == "ref":
                out.append(pay)
    return out


@rule("C07", "R6", "a node reads its own catalog writes: every object-store catalog mutation (register, delete, compaction swap) replaces or clears the cached catalog copy before it reports "
      "success - the lookups answer from that copy for up to its time-to-live, so a skipped refresh hides a registered chunk (or keeps a deleted one) on the node that wrote it")
def r6(cx):
    targets = [(S3 + "atomic_register_chunk", S3 + "atomic_register_chunk"), (S3T + "delete_chunk", S3T + "delete_chunk"), (S3T + "complete_compaction", S3T + "complete_compaction")]
    for fk, label in targets:
        ck = cx.prog.code_key(fk)
        b = cx.body(ck)
        if b is None:
            cx.violation(label, "anchor-missing", "body not found", [])
            continue
        writes = []
        for bi, t in b.calls():
            if t["callee"].endswith("DerefMut::deref_mut") and t["args"] and t["args"][0].get("k") in ("move", "copy"):
                o = M.provenance(b, t["args"][0]["pl"], at=(bi, M.T), adapters=frozenset())
                tys = {b.locals[l]["ty"] for l in range(len(b.locals)) if "RwLockWriteGuard" in b.locals[l]["ty"] and "MetadataCatalog" in b.locals[l]["ty"]}
                rl = t["args"][0]["pl"]["l"]
                # receiver is (a reborrow of) a write guard of the catalog cache
                src = [pay for (dbi, dsi, k, pay) in b.defs().get(rl, []) if k == "assign" and pay["rv"]["k"] == "ref"]
                if any("RwLockWriteGuard" in b.locals[p["rv"]["pl"]["l"]]["ty"] and "MetadataCatalog" in b.locals[p["rv"]["pl"]["l"]]["ty"] for p in src):
                    writes.append(bi)
        if not cx.floor("cache refresh in %s" % label.rsplit("::", 1)[1], len(writes), 1, ck):
            continue
        exits = [e for e in M.exit_defs(b) if e[2] != "err"]
        skipping = [e for e in exits if not b.dominated_by_blocks(e[0], set(writes))]
        if skipping:
            cx.violation(label, "refreshes-cached-catalog", "%s: %s can report success without replacing the cached catalog copy: lookups on this node keep answering from the old copy" % (
                b.sp(skipping[0][0], skipping[0][1]), label.rsplit("::", 1)[1]), [b.sp(skipping[0][0], skipping[0][1])])
        else:
            cx.passed(label, "refreshes-cached-catalog", [b.sp(writes[0])])
