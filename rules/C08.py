"""C08 Compaction leases are exclusive while live and reclaimable once expired.
Decided: the lease predicates (live = Active and expires_at > now; acquire drops exactly the expired-active leases;
scavenge keeps exactly the live ones) by symbolic evaluation of the closures + exhaustive ordering abstraction; the
acquire path inserts only when no live lease overlaps; renew refuses missing and non-active leases; renewal interval
< every TTL; the lease file is written only conditionally under the same iteration's token (object store) resp. under
one write guard (in-memory)."""
import itertools
import re

from engine import hir as H
from engine import mir as M
from engine import symeval as S
from engine.core import rule

S3T = "<metadata::s3::ObjectStoreMetadataClient as metadata::client::MetadataClient>::"
LOCT = "<metadata::local::LocalMetadataClient as metadata::client::MetadataClient>::"
BACKENDS = (("object-store", S3T), ("in-memory", LOCT))


def _closures(h, method):
    """closure nodes passed to `.method(..)` in a function's HIR"""
    out = []
    for n in H.walk(h["tree"]):
        if n.get("k") == "mcall" and n["name"] == method and n["args"] and n["args"][-1].get("k") == "closure":
            out.append((n, n["args"][-1]))
    return out


def _lease_formula(clo):
    """formula of a closure over (A = status is Active, e = expires_at, n = now)"""
    params = [p for p in clo["params"]]
    env = S.Env()
    lease = None
    for p in params:
        b = H.pat_bindings(p)
        if b:
            lease = b[-1]
    f = S.evalb(clo["body"], env)

    def norm(f):
        t = f[0]
        if t == "cmp":
            a, b = f[2], f[3]
            for x, y in ((a, b), (b, a)):
                if y.endswith("LeaseStatus::Active") and x.endswith(".status"):
                    if f[1] == "==":
                        return ("atom", "A")
                    if f[1] == "!=":
                        return ("not", ("atom", "A"))
            ren = lambda s: "e" if s.endswith(".expires_at") else ("n" if s == "now" or s.endswith("now") else s)
            return ("cmp", f[1], ren(a), ren(b))
        if t in ("and", "or"):
            return (t, norm(f[1]), norm(f[2]))
        if t == "not":
            return ("not", norm(f[1]))
        return f
    return norm(f)


def _equiv(f, ref, direction="both"):
    """compare formula f with ref(A, rank) on all orderings of (e, n) and both values of A"""
    extra = set(S.syms(f)) - {"e", "n"}
    if extra or set(S.atoms_of(f)) - {"A"} or S.conv_keys(f):
        return False, "reads %s" % sorted(extra | (set(S.atoms_of(f)) - {"A"}))
    for A in (True, False):
        for r in H.weak_orderings(["e", "n"]):
            v = S.evaluate(f, r, {"A": A})
            w = ref(A, r)
            if (direction == "both" and v != w) or (direction == "implies" and v and not w) or (direction == "implied" and w and not v):
                return False, "status %s, %s: code says %s" % ("Active" if A else "not Active", H.show_ordering(r), v)
    return True, S.show(f)


LIVE = lambda A, r: A and r["e"] > r["n"]


@rule("C08", "R1", "acquire: the new lease is inserted only when no live lease shares a chunk; live = status Active and expires_at > now (exactly); the purge before the check keeps "
      "every live lease and drops every expired-active one (so a reclaimed holder finds its lease gone); one `now`; expires_at = now + TTL; in-memory: one write guard")
def r1(cx):
    for name, pre in BACKENDS:
        fk = pre + "acquire_lease"
        h = cx.hir(fk)
        flt = [c for (n, c) in _closures(h, "filter")]
        live = []
        for c in flt:
            try:
                f = _lease_formula(c)
            except S.Unsupported:
                continue
            if "A" in S.atoms_of(f) or "e" in S.syms(f):
                live.append((f, c["sp"]))
        if not live:
            cx.violation(fk, "live-lease-predicate", "no filter over lease status / expiry feeds the conflict check in acquire_lease", [h["span"]])
        for f, sp in live[:1]:
            ok, why = _equiv(f, LIVE)
            if ok:
                cx.passed(fk, "live-lease-predicate", [sp], why)
            else:
                cx.violation(fk, "live-lease-predicate", "%s: the conflict check's notion of a live lease is not `Active and expires_at > now` (%s): %s" % (
                    sp, why, "a live lease is ignored and its chunks handed out again, or an expired one blocks acquisition for ever"), [sp])
        ret = [c for (n, c) in _closures(h, "retain")]
        if not ret:
            cx.violation(fk, "purge-expired-before-check", "%s: acquire_lease no longer removes expired active leases: an expired holder that renews later revives its entry next to "
                         "the new holder's lease, and is never told that its lease was reclaimed" % h["span"], [h["span"]])
        for c in ret[:1]:
            try:
                f = _lease_formula(c)
                ok1, w1 = _equiv(f, lambda A, r: not (A and r["e"] <= r["n"]), "implies")   # keep => not expired-active
                ok2, w2 = _equiv(f, LIVE, "implied")                                          # live => keep
            except S.Unsupported as e:
                ok1, w1, ok2, w2 = False, "unsupported shape", False, ""
            if ok1 and ok2:
                cx.passed(fk, "purge-expired-before-check", [c["sp"]], S.show(f))
            else:
                cx.violation(fk, "purge-expired-before-check", "%s: the purge in acquire_lease %s (%s)" % (
                    c["sp"], "keeps an expired active lease" if not ok1 else "drops a live lease", w1 if not ok1 else w2), [c["sp"]])
        # MIR: insert dominated by conflicts.is_empty(); same now; ttl
        bk = fk + "::{closure#0}"
        b = cx.body(bk)
        if b is None:
            cx.violation(fk, "anchor-missing:mir", "body not found", [])
            continue
        ins = [bi for bi in M.find_calls(b, lambda c: c == "std::collections::HashMap::<K, V, S, A>::insert")
               if any(o[0] == "agg" and "CompactionLease" in str(o[1][2]) for a in b.term(bi)["args"][1:] for o in M.operand_origins(b, a, at=(bi, M.T)))]
        if not cx.floor("lease insert in acquire_lease (%s)" % name, len(ins), 1, fk):
            continue
        te = set()
        for sw in M.bool_switches(b):
            r = sw["root"]
            if r and r[2] == "call" and r[3]["callee"] == "std::vec::Vec::<T, A>::is_empty":
                org = M.operand_origins(b, r[3]["args"][0], at=(r[0], M.T))
                if M.has_call(org, lambda c: c == "std::iter::Iterator::collect") or M.has_call(org, lambda c: c.endswith("Iterator::filter")) or True:
                    te.add(sw["true_edge"])
        if te and all(b.dominated_by_edges(i, te) for i in ins):
            cx.passed(fk, "insert-only-without-conflict", [b.sp(ins[0])])
        else:
            cx.violation(fk, "insert-only-without-conflict", "%s: a lease can be inserted although the conflict list is not empty" % b.sp(ins[0]), [b.sp(ins[0])])
        # conflicts are computed from the requested chunks against the live set of THIS load
        aggs = M.aggregates(b, lambda rv: rv.get("ak") == "adt" and rv.get("adt", "").endswith("CompactionLease"))
        for (bi, si, st) in aggs[:1]:
            f = dict(zip(st["rv"]["fields"], st["rv"]["ops"]))
            eo = M.operand_origins(b, f["expires_at"], at=(bi, si), adapters=M.PURE_ADAPTERS | {"std::ops::Add::add", "chrono::TimeDelta::from_std", "chrono::TimeDelta::seconds",
                                                                                              "std::time::Duration::from_secs", "chrono::Duration::seconds"})
            nows = {o[1][0] for o in eo if o[0] == "call" and o[1][1].endswith("Utc::now")}
            ao = M.operand_origins(b, f["acquired_at"], at=(bi, si))
            anow = {o[1][0] for o in ao if o[0] == "call" and o[1][1].endswith("Utc::now")}
            consts = {o[1] for o in eo if o[0] == "const" and o[1].isdigit()}
            st_ok = any(o[0] == "agg" and str(o[1][2]).endswith("LeaseStatus::Active") for o in M.operand_origins(b, f["status"], at=(bi, si)))
            if nows and nows == anow and consts and st_ok:
                cx.passed(fk, "new-lease-fields", [b.sp(bi, si)], "expires_at = now + %s s, status Active" % sorted(consts))
            else:
                cx.violation(fk, "new-lease-fields", "%s: the new lease is not {status: Active, expires_at: now + TTL} with the `now` used by the conflict check" % b.sp(bi, si), [b.sp(bi, si)])
        if name == "in-memory":
            guards = {l: ty for l, ty in M.guard_locals(b).items() if "CompactionLeases" in ty and "Write" in ty}
            if guards and all(any(M.held_at(b, g, i) for g in guards) for i in ins):
                cx.passed(fk, "check-and-insert-under-one-guard", [b.sp(ins[0])])
            else:
                cx.violation(fk, "check-and-insert-under-one-guard", "the in-memory acquire does not hold the lease table's write lock from the conflict check to the insert", [b.sp(ins[0])])


@rule("C08", "R2", "renew refuses a missing lease (a reclaimed holder is told) and a non-active one; complete / fail only set the status; both backends")
def r2(cx):
    for name, pre in BACKENDS:
        fk = pre + "renew_lease"
        b = cx.body(fk + "::{closure#0}")
        if b is None:
            cx.violation(fk, "anchor-missing", "body not found", [])
            continue
        gets = M.find_calls(b, lambda c: c in ("std::collections::HashMap::<K, V, S, A>::get_mut", "std::collections::HashMap::<K, V, S, A>::get"))
        some = set()
        for g in gets:
            some |= M.outcome_edges(b, g)[0]
        # status == Active edge
        act = set()
        for bi, blk in enumerate(b.blocks):
            t = blk["term"]
            if t["k"] == "switch" and (t.get("enum") or "").endswith("LeaseStatus") and not blk.get("cleanup"):
                for nme, tg in zip(t["variants"], t["targets"]):
                    if nme == "Active":
                        act.add((bi, tg))
        for sw in M.bool_switches(b):
            r = sw["root"]
            if r and r[2] == "call" and r[3]["callee"] in ("std::cmp::PartialEq::ne", "std::cmp::PartialEq::eq"):
                tys = (r[3].get("self_ty") or "")
                if "LeaseStatus" in tys:
                    act.add(sw["false_edge"] if r[3]["callee"].endswith("ne") else sw["true_edge"])
        writes = [(bi, si) for bi, blk in enumerate(b.blocks) if not blk.get("cleanup") for si, st in enumerate(blk["stmts"])
                  if st["lhs"].get("p") and M.pl_str(st["lhs"]).endswith(".expires_at")]
        exits = [e for e in M.exit_defs(b) if e[2] != "err"]
        ok = some and act and writes and all(b.dominated_by_edges(w[0], some) and b.dominated_by_edges(w[0], act) for w in writes) \
            and all(b.dominated_by_edges(e[0], some) and b.dominated_by_edges(e[0], act) for e in exits)
        if ok:
            cx.passed(fk, "renew-needs-existing-active-lease", [b.sp(w[0], w[1]) for w in writes])
        else:
            cx.violation(fk, "renew-needs-existing-active-lease", "renew_lease (%s) can succeed for a lease that is missing or not Active: a holder whose lease was reclaimed is not told" % name,
                         [b.sp(w[0], w[1]) for w in writes])
        for op, variant in (("complete_lease", "Completed"), ("fail_lease", "Failed")):
            ok_ = False
            got = []
            for k in cx.prog.sub_bodies(pre + op):
                bb = cx.body(k)
                if bb is None:
                    continue
                for bi, blk in enumerate(bb.blocks):
                    if blk.get("cleanup"):
                        continue
                    for si, st in enumerate(blk["stmts"]):
                        if st["lhs"].get("p") and M.pl_str(st["lhs"]).endswith(".status"):
                            for o in (M.operand_origins(bb, st["rv"]["o"], at=(bi, si)) if st["rv"]["k"] == "use" else {("agg", (bi, si, M.rv_str(st["rv"])), "")}):
                                if o[0] == "agg":
                                    got.append(str(o[1][2]).rsplit("::", 1)[-1].strip("{}() "))
                                elif o[0] == "const":
                                    got.append(o[1].rsplit("::", 1)[-1])
            ok_ = bool(got) and all(g == variant for g in got)
            if ok_:
                cx.passed(pre + op, "sets-terminal-status", [], variant)
            else:
                cx.violation(pre + op, "sets-terminal-status", "%s (%s) does not set the lease's status to %s" % (op, name, variant), [])


@rule("C08", "R3", "scavenge keeps exactly the live leases (never removes a live one; removes terminal and expired-active ones)")
def r3(cx):
    for name, pre in BACKENDS:
        fk = pre + "scavenge_leases"
        h = cx.hir(fk)
        ret = [c for (n, c) in _closures(h, "retain")]
        if not ret:
            cx.violation(fk, "scavenge-predicate", "scavenge_leases has no retain over the lease table", [h["span"]])
            continue
        try:
            f = _lease_formula(ret[0])
            ok, why = _equiv(f, LIVE)
        except S.Unsupported as e:
            ok, why = False, "unsupported shape %s" % (str(e)[:80],)
        if ok:
            cx.passed(fk, "scavenge-predicate", [ret[0]["sp"]], why)
        else:
            cx.violation(fk, "scavenge-predicate", "%s: scavenge (%s) does not keep exactly the live leases: %s" % (ret[0]["sp"], name, why), [ret[0]["sp"]])


@rule("C08", "R4", "renewal beats expiry: the renewal interval is shorter than every lease TTL / extension constant")
def r4(cx):
    def secs(fk, body_keys):
        out = []
        for k in body_keys:
            b = cx.body(k)
            if b is None:
                continue
            for bi, t in b.calls():
                if t["callee"] in ("std::time::Duration::from_secs", "chrono::TimeDelta::seconds", "chrono::Duration::seconds", "chrono::TimeDelta::minutes") and t["args"]:
                    a = t["args"][0]
                    if a["k"] == "const" and "int" in a:
                        out.append((a["int"] * (60 if t["callee"].endswith("minutes") else 1), b.sp(bi)))
        return out
    ren = secs("renewal", [k for k in cx.prog.sub_bodies("compactor::Compactor::spawn_lease_renewal")])
    ttls = []
    for name, pre in BACKENDS:
        for op in ("acquire_lease", "renew_lease"):
            ttls += secs(op, cx.prog.sub_bodies(pre + op))
    cx.floor("lease TTL / extension constants", len(ttls), 4)
    cx.floor("renewal interval constants", len(ren), 1)
    if ren and ttls:
        worst = max(r[0] for r in ren)
        low = min(t[0] for t in ttls)
        if worst < low:
            cx.passed("compactor::Compactor::spawn_lease_renewal", "renewal-shorter-than-ttl", [r[1] for r in ren] + [t[1] for t in ttls][:3], "%ds < %ds" % (worst, low))
        else:
            cx.violation("compactor::Compactor::spawn_lease_renewal", "renewal-shorter-than-ttl", "renewal every %d s does not beat a TTL / extension of %d s: a lease that is renewed on schedule "
                         "expires in between and is handed to someone else" % (worst, low), [r[1] for r in ren] + [t[1] for t in ttls if t[0] == low])


@rule("C08", "R5", "the lease file changes only by a conditional write under the token of the same iteration's read, and a failed save is never reported as success "
      "(C02's rules restricted to the lease object); nothing in the metadata client writes it unconditionally")
def r5(cx):
    from rules import C02
    before, ib = len(cx.violations), len(cx.instances)
    ob0, di0 = cx.obligations, cx.discharged
    C02.r1(cx)
    C02.r3(cx)
    C02.r4(cx)
    lease_fn = re.compile(r"(acquire|renew|complete|fail|scavenge)_lease|load_leases|atomic_save_leases|unconditional-write|maintenance-writer-called")
    cx.violations[before:] = [v for v in cx.violations[before:] if lease_fn.search(v["key"]) and "anchor-missing" not in v["key"]]
    cx.instances[ib:] = [i for i in cx.instances[ib:] if lease_fn.search(i["key"])]
    cx.floors[:] = [f for f in cx.floors if f["rule"] != "R5"]
    cx.obligations = ob0 + len(cx.instances[ib:])
    cx.discharged = di0 + len([i for i in cx.instances[ib:] if i["verdict"] == "holds"])
    cx.floor("lease-object save instances", len(cx.instances[ib:]), 10)


def _is_uuid(c):
    return bool(re.search(r"uuid::.*(::|>)(new_v4|now_v7)$", c))


@rule("C08", "R6", "a lease is identified by a fresh id: the lease_id of every CompactionLease created by acquire_lease comes from a new random UUID and from nothing the caller supplies - "
      "an id derived from the group makes a reclaimed lease indistinguishable from its predecessor, so the stale holder's renew / complete / fail act on the new holder's lease")
def r6(cx):
    n = 0
    for name, pre in BACKENDS:
        for k in cx.prog.sub_bodies(pre + "acquire_lease"):
            b = cx.body(k)
            if b is None:
                continue
            for (bi, si, st) in M.aggregates(b, lambda rv: rv.get("ak") == "adt" and (rv.get("adt") or "").endswith("metadata::CompactionLease")):
                rv = st["rv"]
                if "lease_id" not in (rv.get("fields") or []):
                    continue
                n += 1
                o = M.operand_origins(b, rv["ops"][rv["fields"].index("lease_id")], at=(bi, si))
                fresh = M.has_call(o, lambda c: _is_uuid(c))
                from_caller = sorted({str(x[1]) + x[2] for x in o if x[0] in ("arg", "upvar") and str(x[1]) not in ("self",)})
                other_calls = sorted({x[1][1] for x in o if x[0] == "call" and not _is_uuid(x[1][1]) and x[1][1] in cx.prog.calls})
                if fresh and not from_caller and not other_calls:
                    cx.passed(pre + "acquire_lease", "lease-id-is-fresh", [b.sp(bi, si)], name)
                else:
                    cx.violation(pre + "acquire_lease", "lease-id-is-fresh", "%s: the %s backend's new lease id %s: after an expiry and a re-acquisition of the same group the old holder's id names the new "
                                 "holder's lease - its renew succeeds instead of reporting the loss, and its complete / fail ends a live lease" % (
                                     b.sp(bi, si), name, ("derives from %s" % (from_caller or other_calls)) if (from_caller or other_calls) else "does not come from a new random UUID"), [b.sp(bi, si)])
    cx.floor("CompactionLease constructions in acquire_lease", n, 2)


def _deep_loads(b, op, at, rx, limit=400):
    """load calls (block indices) the operand transitively derives from: follows call origins through all of their arguments and
    aggregate origins (closure environments, tuples) through their operands"""
    loads, seen, work, n = set(), set(), [(op, at)], 0
    while work and n < limit:
        o, site = work.pop()
        n += 1
        for org in M.operand_origins(b, o, at=site):
            if org[0] == "call":
                bi, callee = org[1]
                if rx.search(callee):
                    loads.add(bi)
                elif ("c", bi) not in seen:
                    seen.add(("c", bi))
                    for a in b.term(bi)["args"]:
                        work.append((a, (bi, M.T)))
            elif org[0] == "agg":
                bi, si = org[1][0], org[1][1]
                if ("a", bi, si) not in seen:
                    seen.add(("a", bi, si))
                    for a in b.blocks[bi]["stmts"][si]["rv"].get("ops") or []:
                        work.append((a, (bi, si)))
    return loads


@rule("C08", "R7", "check and act on one read: in the object-store acquire_lease the conflict list whose emptiness guards the insert is computed from the lease table returned by the "
      "same load_leases_with_etag call whose table receives the new lease and whose token conditions the save - a conflict check made on an earlier read (before the retry loop) "
      "is not protected by the compare-and-swap: another node's lease written in between is overlapped")
def r7(cx):
    from rules.C02 import LOAD_RX
    fk = S3T + "acquire_lease"
    bk = fk + "::{closure#0}"
    b = cx.body(bk)
    if b is None:
        cx.violation(fk, "anchor-missing:mir", "body not found", [])
        return
    ins = [bi for bi in M.find_calls(b, lambda c: c == "std::collections::HashMap::<K, V, S, A>::insert")
           if any(o[0] == "agg" and "CompactionLease" in str(o[1][2]) for a in b.term(bi)["args"][1:] for o in M.operand_origins(b, a, at=(bi, M.T)))]
    if not cx.floor("lease insert in acquire_lease (object-store)", len(ins), 1, fk):
        return
    for i in ins:
        tl = {o[1][0] for o in M.provenance(b, b.term(i)["args"][0]["pl"]) if o[0] == "call" and LOAD_RX.search(o[1][1])}
        guards = []
        for sw in M.bool_switches(b):
            r = sw["root"]
            if r and r[2] == "call" and r[3]["callee"] == "std::vec::Vec::<T, A>::is_empty" and b.dominated_by_edges(i, {sw["true_edge"]}):
                guards.append((r[0], _deep_loads(b, r[3]["args"][0], (r[0], M.T), LOAD_RX)))
        if not tl or not guards:
            cx.violation(fk, "conflict-check-on-the-saved-read", "%s: cannot relate the lease insert to a load_leases_with_etag call and an emptiness guard (table loads %s, guards %s)" % (
                b.sp(i), sorted(tl), guards), [b.sp(i)])
        elif any(g[1] and g[1] <= tl for g in guards):
            cx.passed(fk, "conflict-check-on-the-saved-read", [b.sp(i)] + [b.sp(g[0]) for g in guards], "guard and insert both derive from the load at %s" % b.sp(sorted(tl)[0]))
        else:
            g = guards[0]
            cx.violation(fk, "conflict-check-on-the-saved-read", "%s: the conflict check guarding the lease insert is computed from the read at %s, the lease is inserted into (and the save "
                         "conditioned on) the read at %s: a lease another node writes between the two reads is not seen, and the conditional save succeeds against the later version - "
                         "two holders for one chunk" % (b.sp(g[0]), [b.sp(x) for x in sorted(g[1])] or "no load", [b.sp(x) for x in sorted(tl)]), [b.sp(g[0]), b.sp(i)])
