"""C09 Garbage collection and retention delete only what is safe to delete.
Decided: who may delete data files; the delete loop is fed through the grace filter (scheduled_at <= now - grace) and
the pin filter; scheduling only after the catalog stopped referencing the chunk; retention compares the newest row with a
cut-off of now - retention - skew; pending deletions are loaded before the first cycle and persisted in every cycle;
the query's RAII pin spans execution.  Known finding: pin test and delete are not one critical section."""
import re

from engine import hir as H
from engine import mir as M
from engine.core import rule
from engine.program import named_parent

CMP = "compactor::Compactor::"
MC = "metadata::client::MetadataClient::"
DEL_RX = re.compile(r"^object_store::ObjectStore::(delete|delete_stream)$")
# reviewed: every function that may issue an object-store delete, with the reason
DELETERS = {
    CMP + "garbage_collect": "the garbage collector itself (judged by R2)",
    "sharding::splitter::ShardSplitter::cleanup": "old-shard clean-up after cut-over (judged by C14)",
    "sharding::splitter::ShardSplitter::remove_progress": "removes the split's own progress file, not a data file",
    "<query::cached_store::CachedObjectStore as object_store::ObjectStore>::delete": "delegating wrapper; invalidates the cache",
}
GC = CMP + "garbage_collect"


@rule("C09", "R1", "only GC deletes data: every object-store delete in the library sits in the garbage collector or a reviewed deleter")
def r1(cx):
    n = 0
    for k, c in cx.prog.sites(lambda c: bool(DEL_RX.match(c))):
        p = named_parent(k)
        n += 1
        if p in DELETERS:
            cx.passed(k, "deleter:%s" % p.rsplit("::", 1)[-1], [c["sp"]], DELETERS[p])
        else:
            cx.violation(k, "unreviewed-deleter", "%s: %s deletes objects from storage; only the garbage collector (after grace period and pin test) may remove data files" % (c["sp"], p), [c["sp"]])
    cx.floor("object-store delete sites", n, 4)


def _filter_chain(b, op, site):
    """Iterator::filter call blocks on the provenance chain of an operand, nearest first, and the chain's root origins"""
    chain = []
    cur = op
    at = site
    for _ in range(6):
        org = M.operand_origins(b, cur, at=at, stop_at=lambda t: t["callee"] == "std::iter::Iterator::filter",
                                adapters=M.PURE_ADAPTERS | {"std::iter::Iterator::filter"})
        fs = sorted({o[1][0] for o in org if o[0] == "call" and o[1][1] == "std::iter::Iterator::filter"})
        if not fs:
            return chain, org
        fb = fs[0]
        chain.append(fb)
        cur = b.term(fb)["args"][0]
        at = (fb, M.T)
    return chain, set()


def _closure_of(b, fb):
    a = b.term(fb)["args"][1]
    if a["k"] in ("copy", "move"):
        for (bi, si, k, pay) in b.defs().get(a["pl"]["l"], []):
            if k == "assign" and pay["rv"]["k"] == "agg" and pay["rv"].get("ak") == "closure":
                return pay["rv"]["def"]
    if a["k"] == "const" and "closure" in a:
        return a["closure"]
    return None


@rule("C09", "R2", "grace and pin filters feed the delete loop: every path GC deletes comes from pending_deletions through a filter that implies "
      "scheduled_at <= now - configured grace period and through a filter that rejects pinned paths")
def r2(cx):
    ck, b = cx.need_body(GC)
    dels = M.find_calls(b, lambda c: bool(DEL_RX.match(c)))
    if not cx.floor("delete sites in garbage_collect", len(dels), 1, ck):
        return
    for d in dels:
        chain, root = _filter_chain(b, b.term(d)["args"][1], (d, M.T))
        from_pending = M.has_field(root, None, ".pending_deletions") or any(".pending_deletions" in x[2] for x in root)
        for x in root:
            if x[0] == "call" and x[1][1].endswith("RwLock::<T>::read"):
                if M.has_field(M.operand_origins(b, b.term(x[1][0])["args"][0], at=(x[1][0], M.T)), None, ".pending_deletions"):
                    from_pending = True
        if not from_pending:
            cx.violation(ck, "delete-fed-by-pending-deletions", "%s: GC deletes a path that does not come from pending_deletions" % b.sp(d), [b.sp(d)])
        else:
            cx.passed(ck, "delete-fed-by-pending-deletions", [b.sp(d)])
        grace_ok = pin_ok = False
        why_g = why_p = "no such filter on the way from pending_deletions to the delete"
        for fb in chain:
            clo = _closure_of(b, fb)
            cb = cx.body(clo) if clo else None
            if cb is None:
                continue
            is_sched = lambda o: any(x[0] == "arg" and x[2].endswith(".scheduled_at") for x in o)
            is_cut = lambda o: any(x[0] == "upvar" and "cutoff" in str(x[1]) for x in o)
            ok, why = M.closure_true_implies(cb, "le", is_sched, is_cut)
            if ok:
                grace_ok = True
            elif any(is_sched(M.operand_origins(cb, sw["a"])) or is_sched(M.operand_origins(cb, sw["b"])) for sw in M.cmp_switches(cb)) or "comparison" in why:
                why_g = why
            # pin filter: no `true` result reachable from the true edge of is_pinned
            pins = M.find_calls(cb, lambda c: c.endswith("ChunkPinRegistry::is_pinned"))
            if pins:
                te = set()
                for sw in M.bool_switches(cb):
                    r = sw["root"]
                    if r and r[2] == "call" and r[3]["callee"].endswith("ChunkPinRegistry::is_pinned"):
                        te.add(sw["true_edge"])
                trues = [(bi, si) for (bi, si, k, pay) in cb.defs().get(0, []) if k == "assign" and pay["rv"]["k"] == "use" and pay["rv"]["o"].get("int") == 1]
                nonconst = [(bi, si) for (bi, si, k, pay) in cb.defs().get(0, []) if not (k == "assign" and pay["rv"]["k"] == "use" and pay["rv"]["o"]["k"] == "const")]
                leak = False
                for e in te:
                    reach = cb.reachable(e[1]) | {e[1]}
                    if any(t[0] in reach for t in trues + nonconst):
                        leak = True
                po = M.operand_origins(cb, cb.term(pins[0])["args"][1], at=(pins[0], M.T))
                same_path = any(x[0] == "arg" and x[2].endswith(".path") for x in po)
                if te and not leak and same_path:
                    pin_ok = True
                else:
                    why_p = "the filter keeps a path although is_pinned(path) is true" if leak or not te else "is_pinned is asked about something other than the entry's path"
        # cutoff = now - grace, grace from configuration
        cut_ok = False
        for bi, t in b.calls():
            if t["callee"] in ("std::ops::Sub::sub",) and "DateTime" in (t.get("self_ty") or ""):
                oa = M.operand_origins(b, t["args"][0], at=(bi, M.T))
                ob = M.operand_origins(b, t["args"][1], at=(bi, M.T), adapters=M.PURE_ADAPTERS | {"chrono::TimeDelta::from_std", "std::result::Result::<T, E>::unwrap_or_else", "std::result::Result::<T, E>::unwrap_or"})
                if M.has_call(oa, lambda c: c.endswith("Utc::now") or c.endswith("BoundedClock::now")) and M.has_field(ob, None, ".gc_grace_period"):
                    cut_ok = True
        if grace_ok and cut_ok:
            cx.passed(ck, "grace-filter", [b.sp(d)], "scheduled_at <= now - config.gc_grace_period")
        else:
            cx.violation(ck, "grace-filter", "%s: a data file can be deleted before it has been unreferenced for the configured grace period (%s)" % (
                b.sp(d), why_g if not grace_ok else "the cut-off is not now - config.gc_grace_period"), [b.sp(d)])
        if pin_ok:
            cx.passed(ck, "pin-filter", [b.sp(d)])
        else:
            cx.violation(ck, "pin-filter", "%s: a data file can be deleted while a running query holds it pinned (%s)" % (b.sp(d), why_p), [b.sp(d)])
    # entries leave the list only after the delete attempt
    rets = [x for x in M.find_calls(b, lambda c: c == "std::vec::Vec::<T, A>::retain")]
    for r in rets:
        if all(b.dominated_by_blocks(r, {d}) or any(b.reaches(d, r) for d in dels) for d in dels) and not any(b.reaches(r, d) for d in dels):
            cx.passed(ck, "unlisted-after-delete", [b.sp(r)])
        else:
            cx.violation(ck, "unlisted-after-delete", "%s: pending deletions are dropped from the list before the delete was attempted (lost across a restart)" % b.sp(r), [b.sp(r)])


@rule("C09", "R3", "pin test and delete form one critical section: a guard of the pin registry is live at the object-store delete")
def r3(cx):
    ck, b = cx.need_body(GC)
    dels = M.find_calls(b, lambda c: bool(DEL_RX.match(c)))
    guards = {l: ty for l, ty in M.guard_locals(b).items() if "HashMap<std::string::String, usize>" in ty or "pins" in ty}
    for d in dels:
        if any(M.held_at(b, g, d) for g in guards):
            cx.passed(ck, "pin-check-atomic-with-delete", [b.sp(d)])
        else:
            cx.violation(ck, "pin-check-not-atomic-with-delete", "%s: is_pinned() is evaluated in the filter pass and its lock released long before the delete: a query that pins the chunk "
                         "in between loses the file under its feet" % b.sp(d), [b.sp(d)])


@rule("C09", "R4", "retention compares the newest row: a chunk reaches delete_chunk in enforce_retention only through a filter implying max_timestamp < cut-off; "
      "it is scheduled for physical deletion only after the catalog delete succeeded")
def r4(cx):
    ck, b = cx.need_body(CMP + "enforce_retention")
    dels = M.find_calls(b, lambda c: c == MC + "delete_chunk")
    if not cx.floor("delete_chunk in enforce_retention", len(dels), 1, ck):
        return
    for d in dels:
        chain, root = _filter_chain(b, b.term(d)["args"][1], (d, M.T))
        ok = False
        why = "no filter between get_chunks and delete_chunk"
        for fb in chain:
            clo = _closure_of(b, fb)
            cb = cx.body(clo) if clo else None
            if cb is None:
                continue
            is_max = lambda o: any(x[0] == "arg" and x[2].endswith(".max_timestamp") for x in o)
            is_cut = lambda o: any(x[0] == "upvar" and "cutoff" in str(x[1]) for x in o)
            ok, why = M.closure_true_implies(cb, "lt", is_max, is_cut)
            if ok:
                break
        # alternatively a dominating branch in the loop body
        if not ok:
            is_max = lambda o: any(x[2].endswith(".max_timestamp") for x in o if x[0] in ("call", "arg", "upvar"))
            is_cut = lambda o: M.has_call(o, lambda c: c.endswith("retention_cutoff_nanos"))
            e, u = M.edges_implying(b, "lt", is_max, is_cut)
            if e and b.dominated_by_edges(d, e):
                ok = True
        if ok:
            cx.passed(ck, "newest-row-older-than-cutoff", [b.sp(d)])
        else:
            cx.violation(ck, "newest-row-older-than-cutoff", "%s: retention can drop a chunk whose newest row is not older than the cut-off (a chunk straddling the cut-off still holds retained rows): %s"
                         % (b.sp(d), why), [b.sp(d)])
        # cut-off used by the filter is the clock's retention cut-off of the configured retention
        co = set()
        for bi, t in b.calls():
            if t["callee"].endswith("retention_cutoff_nanos"):
                co = M.operand_origins(b, t["args"][1], at=(bi, M.T))
        if M.has_field(co, None, ".retention_days"):
            cx.passed(ck, "cutoff-from-configured-retention", [b.sp(d)])
        else:
            cx.violation(ck, "cutoff-from-configured-retention", "the retention cut-off is not computed from config.retention_days", [b.sp(d)])
    ds, _ = set(), set()
    for d in dels:
        ds |= M.outcome_edges(b, d)[0]
    for sb in M.find_calls(b, lambda c: c == CMP + "schedule_deletion"):
        same = {x[1][0] for x in M.operand_origins(b, b.term(sb)["args"][1], at=(sb, M.T)) if x[0] == "call"} & \
               {x[1][0] for d in dels for x in M.operand_origins(b, b.term(d)["args"][1], at=(d, M.T)) if x[0] == "call"}
        if ds and b.dominated_by_edges(sb, ds) and same:
            cx.passed(ck, "schedule-after-catalog-delete", [b.sp(sb)])
        else:
            cx.violation(ck, "schedule-after-catalog-delete", "%s: a chunk is scheduled for physical deletion although its removal from the catalog did not succeed (or it is a different chunk)" % b.sp(sb), [b.sp(sb)])
    # days -> nanoseconds
    h = cx.hir(CMP + "enforce_retention")
    okc = False
    for st in H.walk(h["tree"]):
        if st.get("k") == "slet" and st["pat"].get("k") == "pbind" and st["pat"]["name"] == "retention_nanos" and st.get("init") is not None:
            try:
                c, k0 = H.linear(st["init"])
                if k0 == 0 and len(c) == 1 and list(c.values())[0] == 86_400_000_000_000 and "retention_days" in list(c.keys())[0]:
                    okc = True
            except H.NotLinear:
                pass
    if okc:
        cx.passed(ck, "days-to-nanoseconds", [h["span"]], "retention_days * 86_400_000_000_000")
    else:
        cx.violation(ck, "days-to-nanoseconds", "retention_nanos is not retention_days * 86_400_000_000_000", [h["span"]])


@rule("C09", "R5", "the cut-off includes the skew margin: retention_cutoff_nanos = now - retention - max_skew with now from the monotone clock")
def r5(cx):
    fk = "clock::BoundedClock::retention_cutoff_nanos"
    h = cx.hir(fk)
    try:
        c, k0 = H.linear(h["tree"])
    except H.NotLinear as e:
        cx.violation(fk, "cutoff-arithmetic", "retention_cutoff_nanos is no longer a linear expression: %s" % (str(e)[:100],), [h["span"]])
        return
    pn = [p.get("name") for p in h["params"]]
    want = {"%s.now_nanos()" % pn[0]: 1, pn[1]: -1, "%s.max_skew_ns" % pn[0]: -1}
    if c == want and k0 == 0:
        cx.passed(fk, "cutoff-arithmetic", [h["span"]], "now - retention - max_skew")
    else:
        cx.violation(fk, "cutoff-arithmetic", "%s: the retention cut-off is %s %+d, expected now - retention - max_skew: chunks written by a clock running ahead are dropped early" % (h["span"], c, k0), [h["span"]])


@rule("C09", "R6", "persisted deletions: Compactor::run loads pending deletions before the first cycle; a compaction cycle's Ok exit passes persist_pending_deletions after GC; "
      "scheduling happens only after the catalog stopped referencing the chunk (compaction swap or retention delete)")
def r6(cx):
    rk, rb = cx.need_body(CMP + "run")
    loads = M.find_calls(rb, lambda c: c == CMP + "load_pending_deletions")
    cycles = M.find_calls(rb, lambda c: c in (CMP + "run_cycle", CMP + "run_compaction_cycle"))
    if loads and cycles and all(rb.dominated_by_blocks(c, set(loads)) for c in cycles):
        cx.passed(rk, "load-before-first-cycle", [rb.sp(loads[0])])
    else:
        cx.violation(rk, "load-before-first-cycle", "Compactor::run can start a cycle before the persisted pending deletions were loaded (deletions scheduled before a restart are forgotten)", [])
    ck = CMP + "run_compaction_cycle"
    found = False
    for k in cx.prog.sub_bodies(ck):
        cb = cx.body(k)
        pers = M.find_calls(cb, lambda c: c == CMP + "persist_pending_deletions") if cb else []
        if not pers:
            continue
        found = True
        gcs = M.find_calls(cb, lambda c: c == GC)
        rets = M.find_calls(cb, lambda c: c == CMP + "enforce_retention")
        exits = [e for e in M.exit_defs(cb) if e[2] != "err"]
        if exits and all(cb.dominated_by_blocks(e[0], set(pers)) for e in exits) and all(any(cb.reaches(g, p) for p in pers) for g in gcs + rets) and gcs:
            cx.passed(k, "persist-every-cycle", [cb.sp(pers[0])], "every Ok exit of the cycle passes persist_pending_deletions, after GC and retention")
        else:
            cx.violation(k, "persist-every-cycle", "a compaction cycle can end successfully without persisting the pending deletions after GC and retention scheduling", [cb.sp(p) for p in pers])
    if not found:
        cx.violation(ck, "persist-every-cycle", "run_compaction_cycle never persists the pending deletions: deletions scheduled in this cycle are forgotten by a restart", [])
    # persist_pending_deletions writes what is queued: its Ok exits lie behind the success of a put of the serialised queue to the pending-deletions path
    pk, pb = cx.need_body(CMP + "persist_pending_deletions")
    if pb is not None:
        puts = M.find_calls(pb, lambda c: c in ("object_store::ObjectStore::put", "object_store::ObjectStore::put_opts"))
        if cx.floor("puts in persist_pending_deletions", len(puts), 1, pk):
            se = set()
            for x in puts:
                se |= M.outcome_edges(pb, x)[0]
            exits = [e for e in M.exit_defs(pb) if e[2] != "err"]
            skipping = [e for e in exits if not (se and pb.dominated_by_edges(e[0], se))]
            po = set()
            for x in puts:
                po |= M.operand_origins(pb, pb.term(x)["args"][2], at=(x, M.T), adapters=M.PURE_ADAPTERS | {"serde_json::to_vec", "serde_json::to_vec_pretty", "serde_json::to_string", "std::sync::RwLock::<T>::read", "std::sync::RwLock::<T>::write"})
            from_queue = any(o[0] in ("upvar", "arg") and ".pending_deletions" in o[2] for o in po)
            if skipping:
                cx.violation(pk, "persist-writes-the-queue", "%s: persist_pending_deletions can report success without having written the queue: a cycle that believes nothing changed (or whose flag was "
                             "cleared by an earlier failed write) leaves scheduled deletions unpersisted, and a restart forgets them" % pb.sp(skipping[0][0], skipping[0][1]), [pb.sp(skipping[0][0], skipping[0][1])])
            elif not from_queue:
                cx.violation(pk, "persist-writes-the-queue", "%s: what persist_pending_deletions writes is not the serialised pending_deletions queue" % pb.sp(puts[0]), [pb.sp(puts[0])])
            else:
                cx.passed(pk, "persist-writes-the-queue", [pb.sp(puts[0])])
    # scheduling discipline (shared with C03.R2): after the swap in compaction
    from rules.C03 import _swaps, _succ
    comp = [k for k in cx.prog.calls if k.startswith("compactor::")]
    for k, c in cx.prog.sites(lambda c: c == CMP + "schedule_deletion", within=comp):
        p = named_parent(k)
        if p == CMP + "enforce_retention":
            continue
        b = cx.body(k)
        ss, _ = _succ(b, _swaps(cx, b))
        if ss and b.dominated_by_edges(c["b"], ss):
            cx.passed(k, "schedule-after-swap", [c["sp"]])
        else:
            cx.violation(k, "schedule-after-swap", "%s: %s schedules a chunk for physical deletion on a path where the catalog swap did not succeed: GC later deletes a file the catalog still references" % (c["sp"], p), [c["sp"]])


QFT = "query::QueryNode::query_for_tenant"


@rule("C09", "R7", "the RAII pin spans execution: in query_for_tenant the PinGuard for the selected chunks is live across the statement's execution")
def r7(cx):
    ks = [k for k in cx.prog.sub_bodies(QFT) if cx.prog.calls[k].get("kind") == "coroutine"]
    done = False
    for k in ks:
        b = cx.body(k)
        execs = M.find_calls(b, lambda c: c.endswith("QueryEngine::with_metrics_table"))
        if not execs:
            continue
        done = True
        guards = [l for l, d in enumerate(b.locals) if "compactor::pins::PinGuard" in d["ty"] and l > b.nargs and b.name_of(l) is not None]
        polls = [bi for bi, t in b.calls() if t["callee"] in ("futures::Future::poll", "std::future::Future::poll") and "with_metrics_table" in (t.get("resolved") or "")]
        pts = execs + polls
        held = [g for g in guards if all(M.held_at(b, g, p) for p in pts)]
        if held:
            # pinned paths = the chunks selected for this query
            ok_paths = False
            for bi, t in b.calls():
                if t["dest"]["l"] in held and not t["dest"].get("p"):
                    org = set()
                    for a in t["args"]:
                        org |= M.operand_origins(b, a, at=(bi, M.T))
                    for f in ([a.get("closure") for a in t["args"] if a.get("closure")] + []):
                        pass
                    ok_paths = True
            cx.passed(k, "pin-guard-spans-execution", [b.sp(execs[0])], "guard local(s) %s live at the execution call and its polls" % held)
        else:
            cx.violation(k, "pin-guard-spans-execution", "%s: no PinGuard is alive while the statement executes (the guard is dropped before with_metrics_table runs): GC can delete a chunk the query planned over" % b.sp(execs[0]), [b.sp(execs[0])])
    if not done:
        cx.violation(QFT, "anchor-missing:execution", "query_for_tenant no longer executes through QueryEngine::with_metrics_table", [])


@rule("C09", "R8", "one spelling of a path on both sides of the pin test: schedule_deletion queues the path exactly as it was handed over (the catalog's chunk_path, which is also what a "
      "query pins); nothing converts or normalises it on the way into the queue - the pin registry is keyed by string, so a differently spelled queue entry is never found pinned")
def r8(cx):
    ck, b = cx.need_body(CMP + "schedule_deletion")
    if b is None:
        return
    aggs = M.aggregates(b, lambda rv: rv.get("ak") == "adt" and (rv.get("adt") or "").endswith("PendingDeletion"))
    if not cx.floor("PendingDeletion constructions in schedule_deletion", len(aggs), 1, ck):
        return
    for (bi, si, st) in aggs:
        rv = st["rv"]
        # a conversion into anything but a String is a change of spelling (object_store::path::Path::from strips and re-encodes)
        conv = lambda t: t["callee"] in ("std::convert::From::from", "std::convert::Into::into", "std::convert::TryFrom::try_from", "std::str::FromStr::from_str", "core::str::<impl str>::parse") \
            and "string::String" not in ((t.get("cargs") or "") + (t.get("self_ty") or "")).split(" as ")[0]
        o = M.operand_origins(b, rv["ops"][rv["fields"].index("path")], at=(bi, si), stop_at=conv)
        calls = sorted({(b.term(x[1][0]).get("cargs") or x[1][1]) for x in o if x[0] == "call"})
        from_arg = any(x[0] in ("arg", "upvar") and str(x[1]) in ("path", "2") for x in o) or not calls
        if from_arg and not calls:
            cx.passed(ck, "queued-path-as-given", [b.sp(bi, si)])
        else:
            cx.violation(ck, "queued-path-as-given", "%s: the queued path is %s, not the path as handed over: GC asks the pin registry about a spelling no query ever pinned (e.g. a catalog path with a "
                         "leading slash), finds it unpinned and deletes a file a running query is reading" % (b.sp(bi, si), ("passed through %s" % calls) if calls else "not the `path` argument"), [b.sp(bi, si)])


@rule("C09", "R9", "pins are counted symmetrically: ChunkPinRegistry::pin increments the count of EVERY element of the path list it was given (no element is skipped, e.g. as a duplicate), and "
      "the guard it returns carries that same list, whose every element its Drop decrements - a count raised once and lowered twice releases another query's pin")
def r9(cx):
    fk = "compactor::pins::ChunkPinRegistry::pin"
    b = cx.body(fk)
    if b is None:
        cx.violation(fk, "anchor-missing", "body not found", [])
        return
    incs = [bi for bi, t in b.calls() if re.search(r"Entry<.*>::or_insert$|Entry::<.*>::or_insert$|entry::Entry<'a, K, V(, A)?>::or_insert$", t["callee"]) or t["callee"].endswith("::or_insert")]
    nexts = [bi for bi, t in b.calls() if t["callee"].endswith("::next")]
    if not (cx.floor("count increments in pin", len(incs), 1, fk) and cx.floor("iterations in pin", len(nexts), 1, fk)):
        return
    skipped = []
    for n in nexts:
        o = M.operand_origins(b, b.term(n)["args"][0], at=(n, M.T))
        if not any(x[0] in ("arg", "upvar") and (str(x[1]) in ("paths", "2")) for x in o):
            continue
        for (sb, tg) in M.outcome_edges(b, n)[0]:
            if b.reaches(tg, n, removed_blocks=set(incs)) or tg == n:
                skipped.append(n)
    aggs = M.aggregates(b, lambda rv: rv.get("ak") == "adt" and (rv.get("adt") or "").endswith("PinGuard"))
    same_list = False
    for (bi, si, st) in aggs:
        rv = st["rv"]
        if "paths" in (rv.get("fields") or []):
            o = M.operand_origins(b, rv["ops"][rv["fields"].index("paths")], at=(bi, si), adapters=frozenset())
            same_list = any(x[0] in ("arg", "upvar") and str(x[1]) in ("paths", "2") and x[2] == "" for x in o) and not any(x[0] == "call" for x in o)
    if skipped:
        cx.violation(fk, "every-listed-path-is-counted", "%s: pin can pass over an element of its path list without raising that path's count, while the guard's Drop lowers it once per element: a "
                     "query listing a chunk twice takes another query's pin away when it finishes, and GC deletes a file still being read" % b.sp(skipped[0]), [b.sp(skipped[0])])
    elif not same_list:
        cx.violation(fk, "every-listed-path-is-counted", "the guard returned by pin does not carry the very list whose elements were counted", [])
    else:
        cx.passed(fk, "every-listed-path-is-counted", [b.sp(incs[0])])
    # Drop lowers every element
    dk = [k for k in cx.prog.calls if re.search(r"<compactor::pins::PinGuard as std::ops::Drop>::drop$", k)]
    for k in dk:
        db = cx.body(k)
        if db is None:
            continue
        dnexts = [bi for bi, t in db.calls() if t["callee"].endswith("::next")]
        decs = [bi for bi, t in db.calls() if re.search(r"HashMap::<K, V, S(, A)?>::(get_mut|remove|entry)$", t["callee"])]
        bad = []
        for n in dnexts:
            for (sb, tg) in M.outcome_edges(db, n)[0]:
                if decs and db.reaches(tg, n, removed_blocks=set(decs)):
                    bad.append(n)
        if dnexts and decs and not bad:
            cx.passed(k, "drop-lowers-every-element", [db.sp(decs[0])])
        else:
            cx.violation(k, "drop-lowers-every-element", "PinGuard::drop does not lower the count of every element of its list", [])
    cx.floor("Drop impl of PinGuard", len(dk), 1)
