"""C10 Concurrent queries do not affect each other's results.
The property's mechanism is one clause: the `metrics` binding of the shared SessionContext must stay the query's own
from registration through planning.  Decided: whether a guard of the registration lock is live at the operation
(KNOWN FINDING: it is released first, deliberately); that registration itself is serialised by that lock; that every
statement execution runs inside with_metrics_table on the success edge of a registration of ITS OWN chunk list; that
the 'already registered' short-cut compares exactly this call's path set under the lock."""
from engine import mir as M
from engine.core import rule
from engine.program import named_parent

ENG = "query::engine::QueryEngine::"
WMT = ENG + "with_metrics_table"
REG = ENG + "register_metrics_table_for_chunks"
REGL = ENG + "register_metrics_table_for_chunks_locked"
EXEC = {ENG + "execute", ENG + "execute_with_indexes", ENG + "execute_stream"}


def _lock_guards(b):
    out = []
    for l, ty in M.guard_locals(b).items():
        if ty.startswith("tokio::sync::MutexGuard") and b.name_of(l) is not None:
            src = M.guard_source(b, l)
            if any("metrics_table_query_lock" in (s[1] or "") or "metrics_table_query_lock" in (s[0] if isinstance(s[0], str) else "") for s in src) or True:
                out.append(l)
    return out


@rule("C10", "R1", "the `metrics` binding is stable through planning: a guard of the registration lock is live when with_metrics_table runs the operation "
      "(or nothing reachable from a query mutates the shared session's catalog)")
def r1(cx):
    ck, b = cx.need_body(WMT)
    ops = [bi for bi, t in b.calls() if t["callee"] in ("std::ops::FnOnce::call_once", "std::ops::FnMut::call_mut", "std::ops::Fn::call")]
    regs = M.find_calls(b, lambda c: c in (REG, REGL))
    if not ops or not regs:
        cx.violation(ck, "anchor-missing:operation", "with_metrics_table no longer registers and then calls the operation", [])
        return
    guards = _lock_guards(b)
    polls = [bi for bi, t in b.calls() if t["callee"].endswith("Future::poll") and bi > max(ops)]
    if guards and all(any(M.held_at(b, g, p) for g in guards) for p in ops + polls):
        cx.passed(ck, "registration-lock-spans-operation", [b.sp(ops[0])])
    else:
        cx.violation(ck, "registration-lock-released-before-planning", "%s: the operation is planned and executed with no guard of metrics_table_query_lock alive: another query's "
                     "registration can re-bind `metrics` between this query's registration and its planning, so the statement runs against the other query's chunk set" % b.sp(ops[0]), [b.sp(ops[0])])


@rule("C10", "R2", "registration is serialised: the deregister / register sequence runs only with the registration lock held; the 'already registered' short-cut returns "
      "only on equality of the registered set with this call's path set; the recorded set is the set just registered")
def r2(cx):
    n = 0
    for k, c in cx.prog.sites(lambda c: c == REGL):
        b = cx.body(k)
        n += 1
        guards = _lock_guards(b)
        lock_calls = [bi for bi, t in b.calls() if t["callee"] == "tokio::sync::Mutex::<T>::lock" and M.has_field(M.operand_origins(b, t["args"][0], at=(bi, M.T)), None, ".metrics_table_query_lock")]
        polls = [bi for bi, t in b.calls() if t["callee"].endswith("Future::poll") and REGL in (t.get("resolved") or "")]
        if lock_calls and guards and all(any(M.held_at(b, g, p) for g in guards) for p in [c["b"]] + polls):
            cx.passed(k, "registration-under-lock", [c["sp"]])
        else:
            cx.violation(k, "registration-under-lock", "%s: the metrics table is re-registered without holding metrics_table_query_lock: two queries' deregister/register sequences interleave "
                         "and one of them plans against a missing or foreign table" % c["sp"], [c["sp"]])
    cx.floor("callers of the locked registration", n, 1)
    # catalog mutation only inside the locked function (and construction)
    for k, c in cx.prog.sites(lambda c: c in ("datafusion::prelude::SessionContext::register_table", "datafusion::prelude::SessionContext::deregister_table")):
        p = named_parent(k)
        if p in (REGL, ENG + "register_empty_metrics_table", ENG + "register_chunk"):
            cx.passed(k, "catalog-mutation-site:%s" % c["callee"].rsplit("::", 1)[1], [c["sp"]])
        else:
            cx.violation(k, "catalog-mutation-site:%s" % c["callee"].rsplit("::", 1)[1], "%s: %s re-binds a table of the shared session outside the serialised registration" % (c["sp"], p), [c["sp"]])
    for k, c in cx.prog.sites(lambda c: c == ENG + "register_empty_metrics_table"):
        p = named_parent(k)
        if p not in (REGL, ENG + "new"):
            cx.violation(k, "empty-registration-outside-lock", "%s: %s re-binds `metrics` to the empty table outside the serialised registration" % (c["sp"], p), [c["sp"]])
    # short-cut
    lk, lb = cx.need_body(REGL)
    eqs = set()
    for sw in M.bool_switches(lb):
        r = sw["root"]
        if r and r[2] == "call" and r[3]["callee"] in ("std::cmp::PartialEq::eq",):
            ADP = M.PURE_ADAPTERS | {"parking_lot::lock_api::RwLock::<R, T>::read", "parking_lot::lock_api::RwLock::<R, T>::write"}
            oa = M.operand_origins(lb, r[3]["args"][0], at=(r[0], M.T), adapters=ADP)
            ob = M.operand_origins(lb, r[3]["args"][1], at=(r[0], M.T), adapters=ADP)
            both = oa | ob
            if M.has_field(both, None, ".registered_metrics_paths") or any("registered_metrics_paths" in x[2] for x in both):
                if any(x[0] == "upvar" and "chunk_paths" in str(x[1]) for x in both) or M.has_call(both, lambda c: c.endswith("Iterator::collect")):
                    eqs.add(sw["true_edge"])
    regs = M.find_calls(lb, lambda c: c == "datafusion::prelude::SessionContext::register_table")
    rs = set()
    for r in regs:
        rs |= M.outcome_edges(lb, r)[0]
    empties = M.find_calls(lb, lambda c: c == ENG + "register_empty_metrics_table")
    es = set()
    for e in empties:
        es |= M.outcome_edges(lb, e)[0]
    exits = [e for e in M.exit_defs(lb) if e[2] != "err"]
    bad = [e for e in exits if not lb.dominated_by_edges(e[0], eqs | rs | es)]
    if bad or not eqs:
        cx.violation(lk, "short-cut-only-on-equal-set", "%s: the registration can return Ok without `metrics` being bound to exactly this call's chunk set (neither a fresh registration nor "
                     "registered == requested)" % (lb.sp(bad[0][0], bad[0][1]) if bad else "?"), [lb.sp(e[0], e[1]) for e in bad[:3]])
    else:
        cx.passed(lk, "short-cut-only-on-equal-set", [lb.sp(e[0], e[1]) for e in exits[:3]])
    # the recorded set is this call's set
    ok = True
    n_w = 0
    for bi, t in lb.calls():
        if t["callee"] == "parking_lot::lock_api::RwLock::<R, T>::write":
            if M.has_field(M.operand_origins(lb, t["args"][0], at=(bi, M.T)), None, ".registered_metrics_paths"):
                n_w += 1
    # the table is built from exactly the selected paths: one URL per chunk path of this call, nothing derived from them by a routine of the crate (a directory URL, a
    # prefix, a widened listing reads every object stored there - compaction sources awaiting GC, retention-deleted chunks, orphans of a crashed flush)
    ADP = set(M.PURE_ADAPTERS) | {"std::collections::BTreeSet::<T, A>::iter", "std::iter::Iterator::map", "std::iter::Iterator::collect", "std::iter::IntoIterator::into_iter",
                                  "std::collections::BTreeSet::<T, A>::into_iter", "std::vec::Vec::<T, A>::iter", "core::slice::<impl [T]>::iter"}
    cfgs = M.find_calls(lb, lambda c: c.endswith("ListingTableConfig::new_with_multi_paths") or c.endswith("ListingTableConfig::new"))
    if cx.floor("listing-table configurations in the registration", len(cfgs), 1, lk):
        for cb in cfgs:
            o = M.operand_origins(lb, lb.term(cb)["args"][0], at=(cb, M.T), adapters=ADP)
            local_calls = sorted({x[1][1] for x in o if x[0] == "call" and (x[1][1] in cx.prog.calls or x[1][1].startswith(("query::", "<query::")))})
            from_sel = any(x[0] in ("upvar", "arg") and "chunk_paths" in str(x[1]) for x in o)
            if from_sel and not local_calls:
                cx.passed(lk, "table-over-exactly-the-selected-paths", [lb.sp(cb)])
            else:
                cx.violation(lk, "table-over-exactly-the-selected-paths", "%s: the locations the `metrics` table is built over are %s: a location that is not one selected chunk file makes the "
                             "scan read whatever else is stored there, and the answer then depends on compaction, retention and crash leftovers" % (
                                 lb.sp(cb), ("reshaped by %s" % local_calls) if local_calls else "not derived from this call's chunk paths"), [lb.sp(cb)])
    # the record follows the table: it is written only behind a successful (re-)registration of this call - never ahead of it.  The routine awaits (schema inference reads
    # parquet footers); a request dropped at such a point after the record was moved leaves the record naming a set the table does not hold, and every later request for
    # that set takes the equality short-cut against another query's chunks
    early_w = []
    for bi, t in lb.calls():
        if t["callee"] == "parking_lot::lock_api::RwLock::<R, T>::write" and M.has_field(M.operand_origins(lb, t["args"][0], at=(bi, M.T)), None, ".registered_metrics_paths"):
            if not lb.dominated_by_edges(bi, rs | es):
                early_w.append(bi)
    # ... and right after it: between a successful (re-)registration and the record's write nothing can fail or suspend - a fallible or awaited step there (pre-collecting
    # statistics, warming a cache) leaves the table bound to this call's set and the record naming the previous one whenever it fails or the request is dropped
    rec_blocks = {bi for bi, t in lb.calls() if t["callee"] == "parking_lot::lock_api::RwLock::<R, T>::write" and M.has_field(M.operand_origins(lb, t["args"][0], at=(bi, M.T)), None, ".registered_metrics_paths")}
    errx_l = {e[0] for e in M.exit_defs(lb) if e[2] == "err"}
    gap = None
    for e in rs | es:
        if not any(lb.reaches(e[1], r) or e[1] == r for r in rec_blocks):
            continue
        reach = lb.reachable(e[1], removed_blocks=rec_blocks) | {e[1]}
        reach -= rec_blocks
        ys = [x for x in sorted(reach) if lb.term(x)["k"] == "yield"]
        er = sorted(errx_l & reach)
        if ys or er:
            gap = (ys or er)[0]
    if gap is not None:
        cx.violation(lk, "record-immediately-after-registration", "%s: after the table was (re-)registered the routine can still fail or be suspended before it records the registered set: on that path "
                     "`metrics` is bound to this call's chunks while the record names the previous set, and the next request for the previous set takes the equality short-cut against the "
                     "wrong chunks" % lb.sp(gap), [lb.sp(gap)])
    elif rec_blocks:
        cx.passed(lk, "record-immediately-after-registration", [lb.sp(sorted(rec_blocks)[0])])
    # ... on every path: no Ok exit is reachable from a successful (re-)registration - of the chunk table or of the empty table - without passing the record's write; a
    # registration that is not recorded leaves the record naming the previous set, and the next request for that set takes the equality short-cut against this call's table
    unrec = None
    for e in sorted(rs | es):
        if e[1] in rec_blocks:
            continue
        reach = (lb.reachable(e[1], removed_blocks=rec_blocks) | {e[1]}) - rec_blocks
        ox = [x for x in exits if x[0] in reach]
        if ox:
            unrec = (e, ox[0])
            break
    if unrec is not None:
        cx.violation(lk, "every-registration-is-recorded", "%s: Ok is returned after `metrics` was re-bound (registration at %s) without recording the set it is now bound to: the record keeps naming "
                     "the previous set, and a later query selecting that set is answered from this call's table (an empty one after a query that selected no chunk)" % (
                         lb.sp(unrec[1][0], unrec[1][1]), lb.sp(unrec[0][0])), [lb.sp(unrec[0][0]), lb.sp(unrec[1][0], unrec[1][1])])
    elif rec_blocks and (rs | es):
        cx.passed(lk, "every-registration-is-recorded", [lb.sp(x) for x in sorted(rec_blocks)[:2]], "%d registration success edges, each followed by the record's write before any Ok exit" % len(rs | es))
    if early_w:
        cx.violation(lk, "record-written-after-registration", "%s: the record of the registered chunk set is written before the table registration it describes has succeeded" % lb.sp(early_w[0]), [lb.sp(early_w[0])])
    elif n_w >= 1:
        cx.passed(lk, "record-written-after-registration", [], "%d writes, all behind a successful registration" % n_w)
    if n_w >= 1:
        cx.passed(lk, "records-registered-set", [], "%d writes" % n_w)
    else:
        cx.violation(lk, "records-registered-set", "the registered path set is never recorded (every later identical query would re-register)", [])


@rule("C10", "R3", "every statement execution happens inside with_metrics_table, on the success edge of a registration of the query's own chunk list")
def r3(cx):
    ck, b = cx.need_body(WMT)
    ops = [bi for bi, t in b.calls() if t["callee"] in ("std::ops::FnOnce::call_once", "std::ops::FnMut::call_mut", "std::ops::Fn::call")]
    regs = M.find_calls(b, lambda c: c in (REG, REGL))
    rs = set()
    own = False
    for r in regs:
        rs |= M.outcome_edges(b, r)[0]
        if any(x[0] == "upvar" and "chunk_paths" in str(x[1]) for x in M.operand_origins(b, b.term(r)["args"][1], at=(r, M.T))):
            own = True
    if ops and rs and own and all(b.dominated_by_edges(o, rs) for o in ops):
        cx.passed(ck, "operation-after-own-registration", [b.sp(ops[0])])
    else:
        cx.violation(ck, "operation-after-own-registration", "with_metrics_table can run the operation without having registered the caller's chunk list successfully first", [b.sp(o) for o in ops])
    # who executes statements
    n = 0
    wmt_closures = set()
    for k, c in cx.prog.sites(lambda c: c == WMT):
        for f in c.get("fargs", []):
            wmt_closures.add(f)
    for k, c in cx.prog.sites(lambda c: c in EXEC):
        n += 1
        inside = any(k == w or k.startswith(w + "::{closure#") for w in wmt_closures)
        if inside:
            cx.passed(k, "execution-inside-with_metrics_table:%s" % c["callee"].rsplit("::", 1)[1], [c["sp"]])
        else:
            cx.violation(k, "execution-outside-with_metrics_table:%s" % c["callee"].rsplit("::", 1)[1], "%s: %s executes a statement against the shared `metrics` binding without registering its own chunk set first" % (c["sp"], named_parent(k)), [c["sp"]])
    cx.floor("statement execution sites", n, 3)
    # the chunk list handed to with_metrics_table is the one selected for this query
    for k, c in cx.prog.sites(lambda c: c == WMT):
        bb = cx.body(k)
        org = M.operand_origins(bb, bb.term(c["b"])["args"][1], at=(c["b"], M.T))
        if M.has_call(org, lambda x: x.endswith("MetadataClient::get_chunks_with_predicates") or x.endswith("MetadataClient::get_chunks")):
            cx.passed(k, "own-chunk-selection", [c["sp"]])
        else:
            cx.violation(k, "own-chunk-selection", "%s: the chunk list registered for this query does not come from this query's catalog selection" % c["sp"], [c["sp"]])


@rule("C10", "R4", "no suspension point between binding and planning in the caller's operation: in every closure handed to with_metrics_table no await is reachable before the "
      "statement has been handed to the engine (the known race is a few instructions wide; an await on external I/O in that gap turns it into a certainty under load)")
def r4(cx):
    n = 0
    for k, c in cx.prog.sites(lambda c: c == WMT):
        for f in c.get("fargs", []):
            for k2 in cx.prog.sub_bodies(f):
                if cx.prog.calls[k2].get("kind") != "coroutine":
                    continue
                b = cx.body(k2)
                if b is None:
                    continue
                execs = set(M.find_calls(b, lambda x: x in EXEC))
                if not execs:
                    continue
                n += 1
                reach = b.reachable(0, removed_blocks=execs)
                ys = [bi for bi in sorted(reach) if b.term(bi)["k"] == "yield"]
                if ys:
                    # which awaited call is it
                    awaited = [b.term(x)["callee"] for x in sorted(reach) if b.term(x)["k"] == "call" and not b.term(x)["callee"].startswith(("std::", "core::", "futures::"))]
                    cx.violation(k2, "await-before-planning", "%s: the operation awaits %s after `metrics` was bound and before the statement is planned: a concurrent query's registration "
                                 "landing during that wait re-binds the table, and this statement runs against the other query's chunk set" % (b.sp(ys[0]), awaited[-1] if awaited else "something"),
                                 [b.sp(ys[0])])
                else:
                    cx.passed(k2, "await-before-planning", [b.sp(sorted(execs)[0])])
    cx.floor("operation bodies that execute a statement", n, 2)


PLAN = {ENG + "plan_read_only"}


def _is_plan(c):
    return c in PLAN or c.startswith("datafusion::execution::context::SessionContext::sql") or c.endswith("SessionContext::sql") or c.endswith("SessionContext::sql_with_options")


def _is_run(c):
    return c.startswith("datafusion::dataframe::DataFrame::") and c.rsplit("::", 1)[1] in ("collect", "execute_stream", "collect_partitioned", "execute_stream_partitioned", "show", "count")


@rule("C10", "R5", "a statement is bound to its chunk set once: inside the engine's execution entry points no planning call is reachable after an execution of the plan has "
      "started (a re-plan after a failed or partial run binds `metrics` a second time, long after this query's registration - unless the registration lock spans the operation)")
def r5(cx):
    # protected if the lock is held across the whole operation
    wk, wb = cx.need_body(WMT)
    ops = [bi for bi, t in wb.calls() if t["callee"] in ("std::ops::FnOnce::call_once", "std::ops::FnMut::call_mut", "std::ops::Fn::call")]
    polls = [bi for bi, t in wb.calls() if t["callee"].endswith("Future::poll") and ops and bi > max(ops)]
    guards = _lock_guards(wb)
    protected = bool(guards and ops and all(any(M.held_at(wb, g, p) for g in guards) for p in ops + polls))
    n = 0
    for fk in sorted(EXEC):
        ck = cx.prog.code_key(fk)
        b = cx.body(ck)
        if b is None:
            cx.violation(fk, "anchor-missing", "execution entry point not found", [])
            continue
        plans = M.find_calls(b, _is_plan)
        runs = M.find_calls(b, _is_run)
        if not cx.floor("planning calls in %s" % fk.rsplit("::", 1)[1], len(plans), 1, ck) or not cx.floor("plan executions in %s" % fk.rsplit("::", 1)[1], len(runs), 1, ck):
            continue
        n += 1
        bad = []
        for r in runs:
            tg = b.term(r).get("target")
            after = b.reachable(tg) | {tg} if tg is not None else set()
            bad += [p for p in plans if p in after]
        # what is executed was planned by THIS call: the DataFrame handed to collect / execute_stream derives from this body's planning call only - not from
        # a field of the engine or a map look-up (a remembered DataFrame stays bound to the table registration of the request that planned it)
        for r in runs:
            o = M.operand_origins(b, b.term(r)["args"][0], at=(r, M.T))
            calls = {x[1][1] for x in o if x[0] == "call"}
            foreign = sorted(c for c in calls if not _is_plan(c))
            fields = sorted({x[2] for x in o if x[0] in ("upvar", "arg") and x[2].startswith(".") and str(x[1]) in ("self", "1")})
            if any(_is_plan(c) for c in calls) and not foreign and not fields:
                cx.passed(fk, "executes-this-calls-plan", [b.sp(r)])
            else:
                cx.violation(fk, "executes-this-calls-plan", "%s: the plan that is executed can come from %s rather than from this call's planning: a remembered plan scans the chunk set of the "
                             "request that planned it and silently skips chunks flushed or compacted since" % (b.sp(r), foreign or fields or "somewhere else"), [b.sp(r)])
        if bad and not protected:
            cx.violation(fk, "planned-once", "%s: the statement is planned again after an execution of it was started: the second plan resolves `metrics` against whatever chunk set is "
                         "registered by then (another query's), and its rows are returned as this query's result" % b.sp(bad[0]), [b.sp(bad[0])])
        else:
            cx.passed(fk, "planned-once", [b.sp(plans[0])])
    cx.floor("execution entry points", n, 3)
