"""C11 The query interfaces cannot modify stored data.
Decided: who may call the embedded engine's planning / execution entry points and with which options (every
statement is planned through SessionContext::sql_with_options with DDL, DML and statements disabled; nothing else
plans or executes a plan), who may touch the session's catalog, and that the query side never writes to the object
store directly.  Trusted: DataFusion 44's SQLOptions::verify_plan walks the whole plan and rejects Ddl / Dml / Copy /
Statement nodes before anything executes."""
import re

from engine import mir as M
from engine.core import rule
from engine.program import named_parent

SC = "datafusion::prelude::SessionContext::"
ENG = "query::engine::QueryEngine::"
# every way of turning text / a plan into execution other than the options-checked entry
FORBIDDEN = re.compile(
    r"^datafusion::prelude::SessionContext::(sql|execute_logical_plan|sql_to_statement|read_\w+|register_(csv|parquet|json|avro|listing_table|batch|udf|udaf|udwf|udtf)|write_\w+)$"
    r"|^datafusion::execution::(context::)?SessionState::(create_logical_plan|statement_to_plan|sql_to_statement|sql_to_expr|create_physical_plan|optimize)$"
    r"|^datafusion::execution::session_state::SessionState::(create_logical_plan|statement_to_plan|sql_to_statement|create_physical_plan|optimize)$"
    r"|^datafusion::(dataframe|prelude)::DataFrame::(new|write_\w+)$"
    r"|^datafusion::physical_plan::(collect|execute_stream)$|^datafusion::physical_planner::")
# session-catalog mutation: only the engine's own table registration
CATALOG_MUT = re.compile(r"^datafusion::prelude::SessionContext::(register_table|deregister_table|register_object_store|register_catalog|register_variable|register_table_options_extension|new_with_state|new_with_config|new)$")
CATALOG_OK = {ENG + "register_metrics_table_for_chunks_locked", ENG + "register_empty_metrics_table", ENG + "register_chunk", ENG + "new", ENG + "register_metrics_table_for_chunks"}
# writing the session's state / configuration
STATE_MUT = re.compile(r"SessionContext::(state_ref|state_weak_ref|add_analyzer_rule|add_optimizer_rule|remove_optimizer_rule|enable_url_table|with_\w+|into_state_builder)$"
                       r"|SessionState::(config_mut|table_factories_mut|execution_props_mut|add_\w+|register_\w+|set_\w+)$"
                       r"|SessionConfig::(options_mut|set|set_\w+|with_\w+)$|ConfigOptions::set$")
WRITE_RX = re.compile(r"^object_store::ObjectStore::(put|put_opts|put_multipart|put_multipart_opts|delete|delete_stream|rename|copy|copy_if_not_exists|rename_if_not_exists)$")


@rule("C11", "R1", "user SQL never reaches a permissive planner: every planning call is SessionContext::sql_with_options with DDL, DML and statements "
      "disabled; no other planning / plan-execution entry of the embedded engine is called anywhere in lib or binaries; the session is not handed out")
def r1(cx):
    pa = cx.prog_all
    n_ok = 0
    for k, c in pa.sites(lambda c: c == SC + "sql_with_options"):
        b = cx.body(k, pa)
        t = b.term(c["b"])
        org = M.operand_origins(b, t["args"][2], at=(c["b"], M.T), stop_at=lambda x: False,
                                adapters=M.PURE_ADAPTERS | {x + "SQLOptions::with_allow_" + y for x in ("datafusion::prelude::", "datafusion::execution::context::")
                                                            for y in ("ddl", "dml", "statements")})
        # walk the builder chain explicitly
        flags = {}
        for bi, tt in b.calls():
            m = re.search(r"SQLOptions::with_allow_(ddl|dml|statements)$", tt["callee"])
            if m and b.reaches(bi, c["b"]):
                a = tt["args"][1]
                flags[m.group(1)] = (a["k"] == "const" and a.get("int") == 0)
        news = [o for o in org if o[0] == "call" and o[1][1].endswith("SQLOptions::new")]
        foreign = [o for o in org if o[0] in ("arg", "upvar") or (o[0] == "call" and not o[1][1].endswith("SQLOptions::new"))]
        if news and not foreign and all(flags.get(x) for x in ("ddl", "dml", "statements")):
            n_ok += 1
            cx.passed(k, "planner-options-read-only", [c["sp"]], flags)
        else:
            cx.violation(k, "planner-options-read-only", "%s: sql_with_options is called with options that do not disable DDL, DML and statements (%s): COPY / CREATE / DROP / INSERT / SET "
                         "submitted through a query interface would run" % (c["sp"], {x: flags.get(x) for x in ("ddl", "dml", "statements")}), [c["sp"]])
    cx.floor("options-checked planning sites", n_ok, 1)
    for k, c in pa.sites(lambda c: bool(FORBIDDEN.match(c))):
        cx.violation(k, "unchecked-planner-entry:%s" % c["callee"].rsplit("::", 1)[1],
                     "%s: %s calls %s, which plans or executes a statement without the read-only option check (DataFusion executes DDL and SET eagerly during planning, "
                     "and EXPLAIN ANALYZE runs a nested COPY)" % (c["sp"], named_parent(k), c["callee"]), [c["sp"]])
    for k, c in pa.sites(lambda c: bool(CATALOG_MUT.match(c))):
        p = named_parent(k)
        if p in CATALOG_OK:
            cx.passed(k, "session-catalog:%s" % c["callee"].rsplit("::", 1)[1], [c["sp"]])
        else:
            cx.violation(k, "session-catalog:%s" % c["callee"].rsplit("::", 1)[1], "%s: %s changes the shared session's catalog outside the engine's table registration" % (c["sp"], p), [c["sp"]])
    # the session's state is not written after construction: configuration (time zone, default catalog / schema, batch size, ...) is what every later query of every
    # client sees; SessionContext::clone shares the state, so a "request-scoped copy" is the same session
    for k, c in pa.sites(lambda c: bool(STATE_MUT.search(c))):
        p = named_parent(k)
        if p in (ENG + "new",):
            cx.passed(k, "session-state:%s" % c["callee"].rsplit("::", 1)[1], [c["sp"]])
        else:
            cx.violation(k, "session-state:%s" % c["callee"].rsplit("::", 1)[1], "%s: %s reaches into the shared session's state (%s): SessionContext::clone shares one SessionState, so a setting changed for one "
                         "request (time zone, default schema, ...) is what every later query through any interface is evaluated under" % (c["sp"], p, c["callee"].rsplit("::", 2)[-2] + "::" + c["callee"].rsplit("::", 1)[-1]), [c["sp"]])
    # the session is not handed out
    adt = cx.lib.adts.get("query::engine::QueryEngine")
    fld = [f for f in (adt["variants"][0]["fields"] if adt else []) if "SessionContext" in f["ty"]]
    if fld and all(f["vis"] != "pub" for f in fld):
        cx.passed("query::engine::QueryEngine", "session-field-private", [], [f["name"] for f in fld])
    else:
        cx.violation("query::engine::QueryEngine", "session-field-private", "QueryEngine exposes its SessionContext field publicly", [])
    for k, c in pa.sites(lambda c: c.endswith("QueryEngine::context") or c.endswith("QueryEngine::ctx") or c.endswith("QueryEngine::session")):
        p = named_parent(k)
        if not p.startswith("query::engine::"):
            cx.violation(k, "session-handed-out", "%s: %s obtains the engine's SessionContext and can plan without the read-only check" % (c["sp"], p), [c["sp"]])
    # every engine method that takes SQL text plans through the checked helper
    users = pa.sites(lambda c: c == ENG + "plan_read_only")
    cx.floor("callers of the read-only planning helper", len(users), 5)


@rule("C11", "R2", "no direct writes on the query side: no object-store put / delete / rename / copy in query::* and api::query::* except the caching store's delegations")
def r2(cx):
    within = [k for k in cx.prog.calls if k.startswith(("query::", "<query::", "api::query::", "<api::query::", "api::grpc::", "<api::grpc::"))]
    n = 0
    for k, c in cx.prog.sites(lambda c: bool(WRITE_RX.match(c)), within=within):
        p = named_parent(k)
        n += 1
        if p.startswith("<query::cached_store::CachedObjectStore as object_store::ObjectStore>::"):
            cx.passed(k, "delegation:%s" % c["callee"].rsplit("::", 1)[1], [c["sp"]])
        else:
            cx.violation(k, "query-side-write:%s" % c["callee"].rsplit("::", 1)[1], "%s: %s writes to the object store from the query side" % (c["sp"], p), [c["sp"]])
    cx.floor("object-store write delegations in the caching store", n, 6)


QROOTS = ("query::", "<query::", "api::query::", "<api::query::", "api::grpc::FlightSqlGrpcService", "<api::grpc::FlightSqlGrpcService")
MUT_ENTRY = ("ingester::Ingester::write", "ingester::Ingester::flush", "ingester::Ingester::append_to_buffer", "compactor::Compactor::", "sharding::splitter::ShardSplitter::",
             "ingester::wal::WriteAheadLog::append", "ingester::wal::WriteAheadLog::truncate")


@rule("C11", "R3", "nothing that mutates is reachable from a query interface: in the crate's call graph (trait-object calls expanded over the crate's impls) no function of the SQL / Flight SQL / "
      "Prometheus / streaming query paths reaches a mutating MetadataClient method, the ingest / flush / WAL-write / compaction / split entry points, or an object-store write outside the "
      "caching store's own delegations")
def r3(cx):
    prog = cx.prog
    roots = sorted(k for k in prog.calls if k.startswith(QROOTS))
    if not cx.floor("functions of the query interfaces", len(roots), 300):
        return
    R = prog.reachable_from(roots)
    methods = sorted({m for (t, m) in prog.impls if t == "metadata::client::MetadataClient"})
    cx.floor("MetadataClient methods with impls", len(methods), 20)
    mut = [m for m in methods if not m.startswith(("get_", "list_", "has_", "load_"))]
    bad = []
    for k in sorted(R):
        if "MetadataClient>::" in k and "::{closure" not in k and k.rsplit("::", 1)[1] in mut:
            bad.append((k, "the catalog-mutating %s" % k.rsplit("::", 1)[1]))
        elif k.startswith(MUT_ENTRY) and "::{closure" not in k:
            bad.append((k, "the write-side entry %s" % k))
    for k in sorted(R):
        if named_parent(k).startswith("<query::cached_store::CachedObjectStore as object_store::ObjectStore>::"):
            continue
        for c in prog.calls[k]["calls"]:
            if not c.get("cleanup") and WRITE_RX.match(c["callee"]):
                bad.append((k, "an object-store %s at %s" % (c["callee"].rsplit("::", 1)[1], c["sp"])))
    if not bad:
        cx.passed("<program>", "query-paths-reach-no-mutator", [], "%d query-side functions, %d reachable functions, %d mutating catalog methods excluded" % (len(roots), len(R), len(mut)))
        return
    seen = set()
    for k, what in bad:
        if k in seen:
            continue
        seen.add(k)
        path = None
        for r in roots:
            p = prog.call_path(r, k)
            if p and (path is None or len(p) < len(path)):
                path = p
                if len(p) <= 3:
                    break
        cx.violation(path[0] if path else k, "query-path-reaches-mutator:%s" % named_parent(k).rsplit("::", 1)[1], "a query interface reaches %s: %s" % (what, " -> ".join(named_parent(x) for x in (path or [k]))), [])


@rule("C11", "R4", "a read does not change what later queries see through the shared session: the only session state a query writes is the `metrics` table binding, and the bookkeeping that "
      "lets a later query skip re-registration always names the set actually bound (the registration rules C10.R2 / C10.R5, evaluated for this property) - otherwise a SELECT that "
      "selects no chunk leaves an empty table behind that a later query of an earlier chunk set is answered from")
def r4(cx):
    from rules.C04 import _include
    _include(cx, "C10", ["r2", "r5"], "session binding")
