"""C12 Statistics-based chunk pruning never excludes a matching chunk.
Decided (exhaustively over order types): for every comparison arm of evaluate_against_stats, every value
type and every combination of convertible / unconvertible statistics: a row value x with min <= x <= max that
satisfies the predicate implies the arm's include-formula.  The code touches the values only through
comparisons, so the finite set of weak orderings is exhaustive for any totally ordered domain (NaN excluded)."""
import itertools

from engine import hir as H
from engine import symeval as S
from engine.core import rule

CP = "metadata::predicates::ColumnPredicate"
EVAL = CP + "::evaluate_against_stats"
TYPES_ORDERED = ["Int64", "Float64", "String"]
TYPES_OPAQUE = ["Boolean", "Null"]
# reference semantics of each variant on a row value x (from the enum's contract: `Lt: column < value` ...)
REF = {
    "Eq": ("cmp", "==", "x", "v"),
    "Lt": ("cmp", "<", "x", "v"),
    "LtEq": ("cmp", "<=", "x", "v"),
    "Gt": ("cmp", ">", "x", "v"),
    "GtEq": ("cmp", ">=", "x", "v"),
    "In": ("cmp", "==", "x", "v"),            # v = the list element the row equals
    "Between": ("and", ("cmp", "<=", "low", "x"), ("cmp", "<=", "x", "high")),
}
ALWAYS_TRUE = ["NotEq", "NotIn", "Not"]


def _summaries(cx):
    fns = [k for k in cx.lib.hir_keys() if k.startswith(CP + "::value_")]
    selfs = set(fns) | {EVAL}
    out = {}
    for k in fns:
        h = cx.hir(k)
        params = [p.get("name") for p in h["params"]]
        out[k] = (params, S.evalb(h["tree"], S.Env(), selfs))
    return out, selfs


def _arms(cx):
    h = cx.hir(EVAL)
    t = H.tail(h["tree"]) if h["tree"].get("k") == "block" else h["tree"]
    if t is None or t.get("k") != "match":
        raise S.Unsupported("evaluate_against_stats is not a single match")
    return t["arms"]


def _rename(f, binds):
    m = {}
    for b in binds:
        pass
    return f


def _arm_formula(arm, alt, summaries, selfs):
    names = [s.get("name") if s.get("k") == "pbind" else None for s in alt.get("subs", [])]
    vname = H.pat_path(alt).rsplit("::", 1)[-1]
    env = S.Env()
    f = S.evalb(arm["body"], env, selfs)
    # recursion -> atoms
    f = _rec_atoms(f)
    f = S.inline(f, summaries)
    ren = {"stats.min": "min", "stats.max": "max"}
    if vname in ("Eq", "NotEq", "Lt", "LtEq", "Gt", "GtEq") and len(names) == 2 and names[1]:
        ren[names[1]] = "v"
    if vname in ("In", "NotIn") and len(names) == 2 and names[1]:
        ren["elem(%s)" % names[1]] = "v"
    if vname == "Between" and len(names) == 3:
        ren[names[1]] = "low"
        ren[names[2]] = "high"
    if vname in ("And", "Or") and len(names) == 2:
        ren["rec:%s" % names[0]] = "L"
        ren["rec:%s" % names[1]] = "R"
    return vname, S.subst(f, ren)


def _rec_atoms(f):
    t = f[0]
    if t == "call" and f[1] == EVAL:
        return ("atom", "rec:%s" % f[2][0])
    if t in ("and", "or"):
        return (t, _rec_atoms(f[1]), _rec_atoms(f[2]))
    if t == "not":
        return ("not", _rec_atoms(f[1]))
    if t == "conv":
        return ("conv", f[1], _rec_atoms(f[2]), _rec_atoms(f[3]))
    if t in ("any", "all"):
        return (t, f[1], _rec_atoms(f[2]))
    if t == "tmatch":
        return ("tmatch", f[1], {k: _rec_atoms(v) for k, v in f[2].items()}, _rec_atoms(f[3]) if f[3] else None)
    return f


def _check_sound(cx, vname, f, arm_sp):
    """P(x) && min<=x<=max  =>  include, over every type / conversion combination / weak ordering"""
    ref = REF[vname]
    keys = S.conv_keys(f)
    n_ord = 0
    for T in TYPES_ORDERED + TYPES_OPAQUE:
        for choice in itertools.product([True, False], repeat=len(keys)):
            cm = dict(zip(keys, choice))
            try:
                g = S.resolve(f, lambda s: T, lambda k: cm[k])
            except S.Unsupported as e:
                cx.violation(EVAL, "arm=%s:%s" % (vname, T), "%s: cannot specialise the %s arm for %s: %s" % (arm_sp, vname, T, e), [arm_sp])
                return
            symbols = []
            for s in S.syms(g) + S.syms(ref) + ["min", "max", "x"]:
                if s not in symbols:
                    symbols.append(s)
            pre = lambda r: r["min"] <= r["x"] <= r["max"]
            if T in TYPES_OPAQUE or not all(choice):
                # unknown / unconvertible: must not prune at all when nothing is comparable;
                # with partial convertibility the arm must still be sound
                pass
            claim = lambda r: (not S.evaluate(ref, r)) or S.evaluate(g, r)
            tot, npre, cex = H.check_orderings(symbols, pre, claim)
            n_ord += npre
            if cex is not None:
                cx.violation(EVAL, "arm=%s" % vname,
                             "%s: the %s arm can prune a chunk that holds a matching row: type %s, statistics %s, ordering %s satisfies `%s` with min<=x<=max but the arm yields `%s` = false"
                             % (arm_sp, vname, T, "all convertible" if all(choice) else "partly unconvertible %s" % {str(k): v for k, v in cm.items()},
                                H.show_ordering(cex), S.show(ref), S.show(g)), [arm_sp], {"ordering": H.show_ordering(cex), "type": T, "formula": S.show(g)})
                return
    cx.passed(EVAL, "arm=%s" % vname, [arm_sp], "%d orderings over %d type/conversion cases: %s" % (n_ord, (len(TYPES_ORDERED) + len(TYPES_OPAQUE)) * 2 ** len(keys), S.show(f)[:160]))
    cx.obligations += n_ord - 1
    cx.discharged += n_ord - 1


@rule("C12", "R1", "soundness of every comparison arm: on every weak ordering of (min, max, x, v[, low, high]) with min <= x <= max, for every value type and "
      "every convertible / unconvertible statistics combination: predicate(x) implies the arm's include-formula (helpers inlined from their own HIR)")
def r1(cx):
    try:
        summaries, selfs = _summaries(cx)
        arms = _arms(cx)
    except S.Unsupported as e:
        cx.violation(EVAL, "unsupported-shape", "evaluate_against_stats or a helper left the analysable comparison-only fragment: %s (fail closed)" % (str(e)[:200],), [])
        return
    cx.floor("value_* helper functions", len(summaries), 4, EVAL)
    seen = set()
    for arm in arms:
        for alt in H.pat_alts(arm["pat"]):
            a = alt
            while a.get("k") == "pref":
                a = a["sub"]
            if H.pat_path(a) is None:
                cx.violation(EVAL, "arm=_", "%s: a catch-all arm in evaluate_against_stats must be reviewed: it decides variants this rule cannot name" % arm["sp"], [arm["sp"]])
                continue
            try:
                vname, f = _arm_formula(arm, a, summaries, selfs)
            except S.Unsupported as e:
                cx.violation(EVAL, "arm=%s" % H.pat_path(a).rsplit("::", 1)[-1], "%s: arm left the analysable fragment: %s (fail closed)" % (arm["sp"], str(e)[:200]), [arm["sp"]])
                continue
            seen.add(vname)
            if vname in REF:
                _check_sound(cx, vname, f, arm["sp"])
    missing = set(REF) - seen
    for m in sorted(missing):
        cx.violation(EVAL, "arm=%s" % m, "no arm for ColumnPredicate::%s found" % m, [])
    cx.floor("comparison arms analysed", len(seen & set(REF)), 7, EVAL)


@rule("C12", "R2", "unknown means may-match: NotEq / NotIn / Not always include; And(l, r) includes whenever both sides do, Or(l, r) whenever either does; "
      "every variant of the enum has an explicit arm")
def r2(cx):
    try:
        summaries, selfs = _summaries(cx)
        arms = _arms(cx)
    except S.Unsupported as e:
        cx.violation(EVAL, "unsupported-shape", "evaluate_against_stats left the analysable fragment: %s" % (str(e)[:200],), [])
        return
    got = {}
    for arm in arms:
        for alt in H.pat_alts(arm["pat"]):
            a = alt
            while a.get("k") == "pref":
                a = a["sub"]
            if H.pat_path(a) is None:
                continue
            try:
                vname, f = _arm_formula(arm, a, summaries, selfs)
            except S.Unsupported:
                continue
            got[vname] = (f, arm["sp"])
    for v in ALWAYS_TRUE:
        if v not in got:
            cx.violation(EVAL, "arm=%s" % v, "no arm for ColumnPredicate::%s" % v, [])
            continue
        f, sp = got[v]
        ok = True
        keys = S.conv_keys(f)
        for T in TYPES_ORDERED + TYPES_OPAQUE:
            for choice in itertools.product([True, False], repeat=len(keys)):
                g = S.resolve(f, lambda s: T, lambda k: dict(zip(keys, choice))[k])
                symbols = S.syms(g)
                ats = S.atoms_of(g)
                for vals in itertools.product([True, False], repeat=len(ats)):
                    tot, npre, cex = H.check_orderings(symbols, None, lambda r: S.evaluate(g, r, dict(zip(ats, vals))))
                    if cex is not None:
                        ok = False
        if ok:
            cx.passed(EVAL, "arm=%s" % v, [sp], "always true")
        else:
            cx.violation(EVAL, "arm=%s" % v, "%s: the %s arm can exclude a chunk; min/max statistics cannot rule out a negated predicate (formula %s)" % (sp, v, S.show(f)), [sp])
    for v, want in (("And", lambda L, R: L and R), ("Or", lambda L, R: L or R)):
        if v not in got:
            cx.violation(EVAL, "arm=%s" % v, "no arm for ColumnPredicate::%s" % v, [])
            continue
        f, sp = got[v]
        ok = True
        try:
            ats = S.atoms_of(f)
            if set(ats) - {"L", "R"} or S.conv_keys(f) or S.syms(f):
                raise S.Unsupported("extra inputs %s" % (ats,))
            for L, R in itertools.product([True, False], repeat=2):
                if want(L, R) and not S.evaluate(f, {}, {"L": L, "R": R}):
                    ok = False
        except S.Unsupported as e:
            ok = False
        if ok:
            cx.passed(EVAL, "arm=%s" % v, [sp], S.show(f))
        else:
            cx.violation(EVAL, "arm=%s" % v, "%s: the %s arm (%s) can exclude a chunk although %s sub-predicate(s) may match" % (sp, v, S.show(f), "both" if v == "And" else "one of the"), [sp])
    adt = cx.lib.adts.get(CP)
    variants = [x["name"] for x in adt["variants"]] if adt else []
    cx.floor("ColumnPredicate variants", len(variants), 12, CP)
    for vn in variants:
        if vn not in got:
            cx.violation(EVAL, "arm=%s" % vn, "ColumnPredicate::%s has no analysable arm in evaluate_against_stats" % vn, [])


GETP = "<metadata::s3::ObjectStoreMetadataClient as metadata::client::MetadataClient>::get_chunks_with_predicates"


@rule("C12", "R3", "gate: a chunk is dropped only when evaluate_against_stats on that chunk's own statistics says so: the push is on the side of the "
      "branch taken when every predicate may match")
def r3(cx):
    h = cx.hir(GETP)
    calls = [n for n in H.walk(h["tree"]) if n.get("k") == "mcall" and n.get("def") == EVAL]
    if not cx.floor("evaluate_against_stats call sites in get_chunks_with_predicates", len(calls), 1, GETP):
        return
    # the `if` that gates the push
    gated = False
    for n in H.walk(h["tree"]):
        if n.get("k") != "if":
            continue
        then_push = any(m.get("k") == "mcall" and m["name"] == "push" for m in H.walk(n["then"]))
        else_push = n.get("els") is not None and any(m.get("k") == "mcall" and m["name"] == "push" for m in H.walk(n["els"]))
        if not (then_push or else_push):
            continue
        # resolve the condition to a formula over the `all(...)` atom (let-bound booleans are inlined by name lookup)
        cond = n["cond"]
        src = None
        if cond.get("k") == "local":
            for st in H.walk(h["tree"]):
                if st.get("k") == "slet" and st["pat"].get("k") == "pbind" and st["pat"]["name"] == cond["name"] and st.get("init") is not None:
                    src = st["init"]
        else:
            src = cond
        if src is None or not any(m is c for m in H.walk(src) for c in calls):
            continue
        try:
            f = S.evalb(src, S.Env(), {EVAL})
        except S.Unsupported as e:
            cx.violation(GETP, "gate", "%s: the pruning condition left the analysable fragment (%s)" % (n["sp"], str(e)[:120]), [n["sp"]])
            return
        gated = True

        def val(f, rec):
            t = f[0]
            if t in ("all", "any"):
                return val(f[2], rec)
            if t == "call":
                return rec
            if t == "not":
                return not val(f[1], rec)
            if t in ("and", "or"):
                a, b = val(f[1], rec), val(f[2], rec)
                return (a and b) if t == "and" else (a or b)
            if t == "const":
                return f[1]
            raise S.Unsupported(f)
        try:
            when_match = val(f, True)
        except S.Unsupported as e:
            cx.violation(GETP, "gate", "%s: pruning condition not understood (%s)" % (n["sp"], str(e)[:100]), [n["sp"]])
            return
        ok = (when_match and then_push) or ((not when_match) and else_push)
        # the statistics are the chunk's own
        stats_ok = all(("column_stats" in (S._safe_sym(c["args"][0], S.Env()) or "")) for c in calls)
        if ok and stats_ok:
            cx.passed(GETP, "gate", [n["sp"]], "push on the may-match side: %s" % S.show(f))
        else:
            cx.violation(GETP, "gate", "%s: a chunk whose statistics may match every predicate is not pushed into the result (condition %s)" % (n["sp"], S.show(f)), [n["sp"]])
    if not gated:
        cx.violation(GETP, "gate", "no branch gating results.push on evaluate_against_stats found", [])


CONV = "query::engine::QueryEngine::convert_expr_to_predicate"
CMP_OPS = ["Eq", "NotEq", "Lt", "LtEq", "Gt", "GtEq"]


@rule("C12", "R4", "the SQL -> statistics-predicate conversion over-approximates: each comparison operator maps to the predicate of the same name; a disjunction is "
      "converted only when BOTH operands were (otherwise no predicate at all); a negated BETWEEN is never converted to Between")
def r4(cx):
    from engine import mir as M
    h = cx.hir(CONV)
    seen = {}
    for n in H.walk(h["tree"]):
        if n.get("k") != "match" or "Operator" not in (n.get("sty") or ""):
            continue
        for arm in n["arms"]:
            for alt in H.pat_alts(arm["pat"]):
                vp = H.pat_path(alt)
                if not vp or not vp.split("::")[-2:-1] == ["Operator"]:
                    continue
                x = vp.rsplit("::", 1)[-1]
                if x not in CMP_OPS:
                    continue
                t = H.tail(arm["body"]) if arm["body"].get("k") == "block" else arm["body"]
                p, args = H.ctor_call(t)
                y = None
                if p and p.endswith("Some") and args:
                    ip, _ = H.ctor_call(args[0])
                    y = ip.rsplit("::", 1)[-1] if ip else None
                elif H.path_of(t) and H.path_of(t).endswith("None"):
                    y = "None"
                seen.setdefault(x, []).append((y, arm["sp"]))
    for x in CMP_OPS:
        for (y, sp) in seen.get(x, []):
            if y in (x, "None"):
                cx.passed(CONV, "operator-table:%s" % x, [sp], "Operator::%s -> %s" % (x, y))
            else:
                cx.violation(CONV, "operator-table:%s" % x, "%s: SQL operator %s is converted to the statistics predicate %s: chunks holding matching rows are pruned" % (sp, x, y), [sp])
    cx.floor("comparison operators with a conversion arm", len([x for x in CMP_OPS if x in seen]), 6, CONV)
    # disjunction needs both operands
    b = cx.body(CONV)
    if b is None:
        cx.violation(CONV, "anchor-missing:mir", "body not found", [])
        return
    or_edges = []
    for bi, blk in enumerate(b.blocks):
        t = blk["term"]
        if t["k"] == "switch" and (t.get("enum") or "").endswith("Operator") and not blk.get("cleanup"):
            for nme, tg in zip(t["variants"], t["targets"]):
                if nme == "Or":
                    or_edges.append((bi, tg))
    if not or_edges:
        cx.violation(CONV, "or-needs-both-operands", "convert_expr_to_predicate no longer distinguishes Operator::Or itself: the rule cannot see that a disjunction with an "
                     "unconvertible operand yields no predicate (fail closed)", [])
    rec = M.find_calls(b, lambda c: c == CONV)
    exits = [e for e in M.exit_defs(b) if e[2] != "err"]
    for (sb, tg) in or_edges:
        region = b.reachable(tg) | {tg}
        calls = [r for r in rec if r in region]
        L = [r for r in calls if any(".left" in x[2] for x in M.operand_origins(b, b.term(r)["args"][0], at=(r, M.T)) if x[0] in ("arg", "call", "upvar"))]
        R = [r for r in calls if any(".right" in x[2] for x in M.operand_origins(b, b.term(r)["args"][0], at=(r, M.T)) if x[0] in ("arg", "call", "upvar"))]
        sl, sr = set(), set()
        for r in L:
            sl |= M.outcome_edges(b, r)[0]
        for r in R:
            sr |= M.outcome_edges(b, r)[0]
        bad = None
        for e in exits:
            if e[0] not in region:
                continue
            for name, s in (("left", sl), ("right", sr)):
                if not s or e[0] in (b.reachable(tg, removed_edges=s) | {tg}):
                    bad = (e, name)
        if bad:
            cx.violation(CONV, "or-needs-both-operands", "%s: for `a OR b` a predicate can be returned although the %s operand was not converted: chunks whose rows match only "
                         "that operand are pruned" % (b.sp(bad[0][0], bad[0][1]), bad[1]), [b.sp(sb), b.sp(bad[0][0], bad[0][1])])
        else:
            cx.passed(CONV, "or-needs-both-operands", [b.sp(sb)], "every Some exit on the Or edge follows successful conversion of .left and .right")
    # every ColumnPredicate::Or built anywhere in the engine gets both operands from conversions
    for k in cx.prog.fn_keys(r"^query::engine::"):
        bb = cx.body(k)
        if bb is None:
            continue
        for (bi, si, st) in M.aggregates(bb, lambda rv: rv.get("ak") == "adt" and rv.get("adt", "").endswith("predicates::ColumnPredicate") and rv.get("variant") == "Or"):
            srcs = set()
            for o in st["rv"]["ops"]:
                for x in M.operand_origins(bb, o, at=(bi, si)):
                    if x[0] == "call" and x[1][1] == CONV:
                        srcs.add(x[1][0])
            if len(srcs) >= 2:
                cx.passed(k, "or-built-from-two-conversions", [bb.sp(bi, si)])
            else:
                cx.violation(k, "or-built-from-two-conversions", "%s: a ColumnPredicate::Or is assembled from operands that are not both conversion results in this function (the "
                             "'operand missing' case is decided elsewhere, out of this rule's sight)" % bb.sp(bi, si), [bb.sp(bi, si)])
    # polarity: dropping an unconvertible AND operand only weakens the predicate (sound) as long as the result is never complemented; `NOT e` is carried as the opaque
    # ColumnPredicate::Not (always may-match, R2).  The two are unsound together: NOT(a AND <unconvertible>) -> NOT a -> complement(a) prunes chunks whose rows fail only
    # the dropped operand.  Violation only when both hold: (1) a predicate is returned for `a AND b` without both operands converted, (2) the converter no longer wraps the
    # converted inner expression of NOT directly into ColumnPredicate::Not
    and_edges = []
    for bi, blk in enumerate(b.blocks):
        t = blk["term"]
        if t["k"] == "switch" and (t.get("enum") or "").endswith("Operator") and not blk.get("cleanup"):
            for nme, tg in zip(t["variants"], t["targets"]):
                if nme == "And":
                    and_edges.append((bi, tg))
    weak = None
    for (sb, tg) in and_edges:
        region = b.reachable(tg) | {tg}
        calls = [r for r in rec if r in region]
        for side in (".left", ".right"):
            cs = [r for r in calls if any(side in x[2] for x in M.operand_origins(b, b.term(r)["args"][0], at=(r, M.T)) if x[0] in ("arg", "call", "upvar"))]
            se = set()
            for r in cs:
                se |= M.outcome_edges(b, r)[0]
            for e in exits:
                if e[0] in region and (not se or e[0] in (b.reachable(tg, removed_edges=se) | {tg})):
                    weak = weak or (sb, e, side)
    nots = M.aggregates(b, lambda rv: rv.get("ak") == "adt" and rv.get("adt", "").endswith("predicates::ColumnPredicate") and rv.get("variant") == "Not")
    opaque = bool(nots) and all(any(x[0] == "call" and x[1][1] == CONV for o in st["rv"]["ops"] for x in M.operand_origins(b, o, at=(bi, si))) for (bi, si, st) in nots)
    if weak and not opaque:
        cx.violation(CONV, "no-complement-of-a-weakened-conjunction", "%s: for `a AND b` a predicate is returned without the %s operand being converted (a weaker predicate), and `NOT e` is no "
                     "longer carried as the opaque ColumnPredicate::Not of the converted e: NOT(a AND <unconvertible>) becomes the complement of a, which prunes chunks whose rows fail "
                     "only the dropped operand" % (b.sp(weak[1][0], weak[1][1]), weak[2][1:]), [b.sp(weak[0]), b.sp(weak[1][0], weak[1][1])])
    elif and_edges:
        cx.passed(CONV, "no-complement-of-a-weakened-conjunction", [b.sp(and_edges[0][0])], "AND needs both operands: %s; NOT stays opaque: %s" % (not weak, opaque))
    # negated BETWEEN
    neg_false = set()
    for sw in M.bool_switches(b):
        r = sw["root"]
        if r and r[2] == "assign" and r[3]["rv"]["k"] == "use" and r[3]["rv"]["o"]["k"] in ("copy", "move") and M.pl_str(r[3]["rv"]["o"]["pl"]).endswith(".negated"):
            neg_false.add(sw["false_edge"])
    for (bi, si, st) in M.aggregates(b, lambda rv: rv.get("ak") == "adt" and rv.get("adt", "").endswith("predicates::ColumnPredicate") and rv.get("variant") == "Between"):
        if neg_false and b.dominated_by_edges(bi, neg_false):
            cx.passed(CONV, "between-not-negated", [b.sp(bi, si)])
        else:
            cx.violation(CONV, "between-not-negated", "%s: `x NOT BETWEEN a AND b` is converted to Between(x, a, b): chunks lying entirely outside [a, b] - exactly the matching ones - are pruned"
                         % b.sp(bi, si), [b.sp(bi, si)])


PLAN_WALKERS = ["query::engine::QueryEngine::extract_predicates_from_plan", "query::engine::QueryEngine::extract_time_bounds"]
SINGLE_INPUT = {"Filter", "Projection", "Sort", "Limit", "Aggregate", "Window", "Distinct", "SubqueryAlias", "Repartition"}


@rule("C12", "R5", "filters are collected along a single-input chain only: extract_predicates_from_plan (and the time-window walk extract_time_bounds) recurses only from arms that name a one-input plan node (Filter, Projection, Sort, "
      "Limit, Aggregate, ...) and only into that node's `input`; it never walks `inputs()` generically or enters Union / Join, where a WHERE clause belongs to one branch and ANDing it into "
      "the query-wide conjunction prunes chunks the other branch needs")
def r5(cx):
    for fk in PLAN_WALKERS:
        h = cx.hir(fk)
        if h is None:
            cx.violation(fk, "anchor-missing", "HIR not found", [])
            continue
        top = H.tail(h["tree"]) if h["tree"].get("k") == "block" else h["tree"]
        if top is None or top.get("k") != "match":
            cx.violation(fk, "plan-walk-shape", "%s: the plan walk is no longer a match on the plan node" % h["span"], [h["span"]])
            continue
        n_rec = 0
        bad = []
        for arm in top["arms"]:
            recs = [n for n in H.walk(arm["body"]) if n.get("k") == "call" and (H.path_of(n.get("f")) or "").endswith(fk.rsplit("::", 1)[1])]
            if not recs:
                continue
            for alt in H.pat_alts(arm["pat"]):
                ch = [x.rsplit("::", 1)[-1] for x in H.pat_variant_chain(alt)]
                var = ch[0] if ch else None
                for r in recs:
                    n_rec += 1
                    a0 = H.strip(r["args"][0]) if r.get("args") else {}
                    into_input = a0.get("k") == "field" and a0.get("name") == "input" and H.strip(a0.get("e", {})).get("k") == "local"
                    if var in SINGLE_INPUT and into_input:
                        continue
                    bad.append((r.get("sp") or arm.get("sp"), var or "a catch-all arm", into_input))
        cx.floor("recursive descents in %s" % fk.rsplit("::", 1)[1], n_rec, 4, fk)
        if bad:
            sp, var, into = bad[0]
            cx.violation(fk, "descends-single-input-nodes-only", "%s: the filter collection descends from %s%s: below a multi-input node (UNION, JOIN) each branch's WHERE clause is ANDed into one "
                         "query-wide conjunction, and chunks that satisfy only one branch are pruned" % (sp, var, "" if into else " into something other than that node's `input`"), [sp])
        else:
            cx.passed(fk, "descends-single-input-nodes-only", [h["span"]], "%d descents" % n_rec)


@rule("C12", "R6", "a chunk's statistics are only what was recorded for that chunk: inside the library the `column_stats` of a catalog entry is set at registration (to the empty map) and "
      "nowhere else - nothing assigns it, borrows it mutably or builds an entry with statistics taken or combined from other entries (an envelope over sources that have statistics "
      "says nothing about the rows of a source that has none, and the merged chunk is pruned for values only that source holds)")
def r6(cx):
    from engine import mir as M
    from engine.program import named_parent
    ALLOWED = {"metadata::s3::ObjectStoreMetadataClient::atomic_register_chunk": "registration: HashMap::new()"}
    n = 0
    for k in cx.prog.fn_keys(r"^(<)?(metadata|compactor|sharding|ingester|query)::"):
        b = cx.body(k)
        if b is None:
            continue
        p = named_parent(k)
        if "as std::clone::Clone>" in p or "_serde::" in p or "as std::default::Default>" in p:
            continue  # derived copies / (de)serialisation of an entry as it is
        for bi, blk in enumerate(b.blocks):
            if blk.get("cleanup"):
                continue
            for si, st in enumerate(blk["stmts"]):
                lhs_s = M.pl_str(st["lhs"])
                rv = st["rv"]
                site = None
                if st["lhs"].get("p") and lhs_s.endswith(".column_stats"):
                    site = "assignment"
                elif rv["k"] == "ref" and rv.get("mut") and M.pl_str(rv["pl"]).endswith(".column_stats"):
                    site = "mutable borrow"
                elif rv["k"] == "agg" and (rv.get("adt") or "").endswith("ChunkMetadataExtended") and "column_stats" in (rv.get("fields") or []):
                    o = M.operand_origins(b, rv["ops"][rv["fields"].index("column_stats")], at=(bi, si))
                    calls = {x[1][1] for x in o if x[0] == "call"}
                    n += 1
                    if p in ALLOWED and calls and all(c.endswith("HashMap::<K, V>::new") or c.endswith("HashMap::<K, V, S>::default") or "HashMap" in c and c.endswith("::new") for c in calls):
                        cx.passed(p, "column-stats-writer", [b.sp(bi, si)], ALLOWED[p])
                    else:
                        cx.violation(p, "column-stats-writer", "%s: %s builds a catalog entry whose statistics come from %s" % (b.sp(bi, si), p.rsplit("::", 1)[1], sorted(calls) or "elsewhere"), [b.sp(bi, si)])
                    continue
                if site:
                    n += 1
                    cx.violation(p, "column-stats-writer", "%s: %s changes a catalog entry's column statistics (%s) outside registration: statistics that were not computed from the chunk's own rows "
                                 "make pruning unsound for it" % (b.sp(bi, si), p.rsplit("::", 1)[1], site), [b.sp(bi, si)])
    cx.floor("constructions / writes of column_stats", n, 1)


SCAL = "query::engine::QueryEngine::convert_scalar_to_predicate_value"
REVIEWED_EXPR_ARMS = {"BinaryExpr", "Between", "InList", "Not"}
LOSSLESS = {("Int8", "Int64"), ("Int16", "Int64"), ("Int32", "Int64"), ("Int64", "Int64"), ("UInt8", "Int64"), ("UInt16", "Int64"), ("UInt32", "Int64"),
            ("Float32", "Float64"), ("Float64", "Float64"), ("Utf8", "String"), ("LargeUtf8", "String"), ("Utf8View", "String"), ("Boolean", "Boolean"), ("Null", "Null")}


@rule("C12", "R7", "only reviewed SQL forms are pushed down, and literals are carried over losslessly: convert_expr_to_predicate converts exactly the expression kinds whose conversion "
      "was checked (BinaryExpr, Between, InList, Not - R4), any other kind yields no predicate until it is reviewed; convert_scalar_to_predicate_value maps each literal type to a "
      "predicate value that represents it exactly (no UInt64 -> i64 wrap, no float -> integer truncation)")
def r7(cx):
    h = cx.hir(CONV)
    top = H.tail(h["tree"]) if h["tree"].get("k") == "block" else h["tree"]
    if top is None or top.get("k") != "match":
        cx.violation(CONV, "conversion-arms", "%s: convert_expr_to_predicate is no longer a match on the expression kind (fail closed)" % h["span"], [h["span"]])
    else:
        n = 0
        for arm in top["arms"]:
            for alt in H.pat_alts(arm["pat"]):
                ch = [x.rsplit("::", 1)[-1] for x in H.pat_variant_chain(alt)]
                if not ch:
                    # catch-all: must yield None
                    t = H.tail(arm["body"]) if arm["body"].get("k") == "block" else arm["body"]
                    if not (H.path_of(H.strip(t)) or "").endswith("None"):
                        cx.violation(CONV, "conversion-arms:_", "%s: the catch-all arm of the conversion does not yield None" % arm["sp"], [arm["sp"]])
                    continue
                n += 1
                if ch[0] in REVIEWED_EXPR_ARMS:
                    cx.passed(CONV, "conversion-arms:%s" % ch[0], [arm["sp"]])
                else:
                    cx.violation(CONV, "conversion-arms:%s" % ch[0], "%s: expressions of kind %s are now converted into a statistics predicate; that conversion has not been checked for soundness "
                                 "(e.g. LIKE 'a_b%%' is not the range ['a_b', 'a_c'): `_` matches any character)" % (arm["sp"], ch[0]), [arm["sp"]])
        cx.floor("converted expression kinds", n, 4, CONV)
    # exchanging the operands of a comparison mirrors the operator (swap); logical negation (negate) is a different operation: `c <= x` negated is `c > x`, i.e. x < c,
    # which prunes the chunk whose minimum equals c
    from engine import mir as M_
    negs = [(k, c) for k, c in cx.prog.sites(lambda c: c.endswith("Operator::negate")) if k.startswith(("query::engine::", "query::streaming::"))]
    if negs:
        for k, c in negs:
            cx.violation(k, "operand-exchange-uses-swap", "%s: the conversion turns an operator around with Operator::negate() (logical negation) - exchanging operands needs the mirror, "
                         "Operator::swap(): `c <= x` becomes Gt instead of GtEq and a chunk whose end point equals c is pruned" % c["sp"], [c["sp"]])
    else:
        cx.passed(CONV, "operand-exchange-uses-swap", [], "no Operator::negate in the conversions")
    hs = cx.hir(SCAL)
    if hs is None:
        cx.violation(SCAL, "anchor-missing", "HIR not found", [])
        return
    stop = H.tail(hs["tree"]) if hs["tree"].get("k") == "block" else hs["tree"]
    if stop is not None and stop.get("k") == "match":
        for arm in stop["arms"]:
            for alt in H.pat_alts(arm["pat"]):
                ch = [x.rsplit("::", 1)[-1] for x in H.pat_variant_chain(alt)]
                if ch and ch[0] != "Literal":
                    cx.violation(SCAL, "literal-kinds:%s" % ch[0], "%s: a %s expression is read as if it were the constant inside it: the operation it applies (a narrowing CAST turns 9.9 into 9) is not "
                                 "applied to the pushed value, and chunks lying between the two are pruned" % (arm["sp"], ch[0]), [arm["sp"]])
                elif ch:
                    cx.passed(SCAL, "literal-kinds:%s" % ch[0], [arm["sp"]])
    n = 0
    for m in H.walk(hs["tree"]):
        if m.get("k") != "match" or "ScalarValue" not in (m.get("sty") or ""):
            continue
        for arm in m["arms"]:
            t = H.tail(arm["body"]) if arm["body"].get("k") == "block" else arm["body"]
            p, args = H.ctor_call(t)
            dst = None
            if p and p.endswith("Some") and args:
                ip, _ = H.ctor_call(args[0])
                dst = (ip or H.path_of(H.strip(args[0])) or "?").rsplit("::", 1)[-1]
            for alt in H.pat_alts(arm["pat"]):
                ch = [x.rsplit("::", 1)[-1] for x in H.pat_variant_chain(alt)]
                if not ch or dst is None:
                    continue
                src = ch[0]
                n += 1
                if (src, dst) in LOSSLESS:
                    cx.passed(SCAL, "literal:%s" % src, [arm["sp"]], "%s -> %s" % (src, dst))
                else:
                    cx.violation(SCAL, "literal:%s" % src, "%s: a %s literal is pushed down as PredicateValue::%s, which cannot represent every value of that type: a literal outside the "
                                 "target's range wraps or truncates (e.g. 18446744073709551615 becomes -1) and chunks whose rows all match are pruned" % (arm["sp"], src, dst), [arm["sp"]])
    cx.floor("literal types with a conversion", n, 8, SCAL)
