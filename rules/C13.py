"""C13 Shard metadata changes are fenced by generation.
Decided: compare-before-store (the store is dominated by the equal edge of stored generation == expected, read in the
same retry iteration), exactly-one-up arithmetic, creation under the create-if-absent token with expected == 0,
atomicity of compare and store (object store: token discipline of C02 for the shard object; in-memory backend and
router cache: compare and store through one live dashmap entry guard), no success after a failed conditional save."""
import re

from engine import mir as M
from engine.core import rule
from engine.program import named_parent

S3T = "<metadata::s3::ObjectStoreMetadataClient as metadata::client::MetadataClient>::update_shard_metadata"
LOCT = "<metadata::local::LocalMetadataClient as metadata::client::MetadataClient>::update_shard_metadata"
ROUTER = "sharding::router::ShardRouter::update_routing"
LOAD = "metadata::s3::ObjectStoreMetadataClient::load_shard_with_etag"
SAVE = "metadata::s3::ObjectStoreMetadataClient::atomic_save_shard"


def _s3_block(cx):
    for k in sorted(cx.prog.calls):
        if k.startswith(S3T + "::{closure#0}::{closure#"):
            b = cx.body(k)
            if b is not None and M.find_calls(b, lambda c: c == SAVE):
                return k, b
    return None, None


def _is_expected(o):
    return any(x[0] == "upvar" and "expected_generation" in str(x[1]) for x in o)


@rule("C13", "R1", "compare before store (object store): each conditional save of a shard that uses a loaded token is dominated by the equal edge of "
      "loaded.generation == expected_generation, both read in the same retry iteration; a mismatch ends in an error")
def r1(cx):
    k, b = _s3_block(cx)
    if b is None:
        cx.violation(S3T, "anchor-missing:cas-block", "CAS block of update_shard_metadata not found", [])
        return
    loads = M.find_calls(b, lambda c: c == LOAD)
    saves = M.find_calls(b, lambda c: c == SAVE)
    cx.floor("atomic_save_shard sites", len(saves), 2, k)
    is_cur = lambda o: any(x[0] == "call" and x[1][1] == LOAD and M.strip_unwraps(x[2]).endswith(".generation") for x in o)
    eq, used = M.edges_implying(b, "eq", is_cur, _is_expected)
    ls, lf = set(), set()
    for l in loads:
        s, f = M.outcome_edges(b, l)
        ls |= s
        lf |= f
    n_update = 0
    for s in saves:
        tok = M.operand_origins(b, b.term(s)["args"][-1], at=(s, M.T))
        if M.has_call(tok, lambda c: c == LOAD):
            n_update += 1
            if eq and b.dominated_by_edges(s, eq) and b.dominated_by_edges(s, ls):
                cx.passed(k, "update-after-generation-check", [b.sp(s), b.sp(used[0]["block"])])
            else:
                cx.violation(k, "update-after-generation-check", "%s: the shard document can be replaced without the stored generation having been compared with the expected one "
                             "in this attempt: a writer acting on outdated state overwrites a newer one (and is told Ok)" % b.sp(s), [b.sp(s)])
        else:
            # creation
            consts = {x[1] for x in tok if x[0] == "const"}
            zero, used0 = M.edges_implying(b, "eq", _is_expected, lambda o: any(x[0] == "const" and x[1] == "0" for x in o))
            if consts and all("none" in c for c in consts) and lf and b.dominated_by_edges(s, lf) and zero and b.dominated_by_edges(s, zero):
                cx.passed(k, "create-only-if-absent-and-expected-zero", [b.sp(s)])
            else:
                cx.violation(k, "create-only-if-absent-and-expected-zero", "%s: a shard document is written without a loaded token outside the creation path (load reported absence, "
                             "expected generation 0, create-if-absent token)" % b.sp(s), [b.sp(s)])
    cx.floor("token-carrying shard saves", n_update, 1, k)
    # mismatch -> error: from the not-equal edges no Ok exit is reachable
    ne = set()
    for sw in used:
        ne |= {sw["true_edge"], sw["false_edge"]} - eq
    exits = [e for e in M.exit_defs(b) if e[2] != "err"]
    leak = [e for e in exits for x in ne if e[0] in (b.reachable(x[1]) | {x[1]})]
    if ne and not leak:
        cx.passed(k, "mismatch-is-an-error", [b.sp(used[0]["block"])])
    else:
        cx.violation(k, "mismatch-is-an-error", "a generation mismatch can end in Ok", [b.sp(used[0]["block"])] if used else [])


@rule("C13", "R2", "exactly one up: the generation written is expected_generation + 1 (creation writes 1), in both backends")
def r2(cx):
    k, b = _s3_block(cx)
    bodies = []
    if b is not None:
        bodies.append((k, b))
    lb = cx.body(LOCT + "::{closure#0}")
    if lb is not None:
        bodies.append((LOCT, lb))
    cx.floor("update_shard_metadata bodies", len(bodies), 2)
    for kk, bb in bodies:
        sts = []
        for bi, blk in enumerate(bb.blocks):
            if blk.get("cleanup"):
                continue
            for si, st in enumerate(blk["stmts"]):
                if st["lhs"].get("p") and M.pl_str(st["lhs"]).endswith(".generation"):
                    sts.append((bi, si, st))
        if not sts:
            cx.violation(kk, "generation-plus-one", "no assignment to .generation found", [])
            continue
        for (bi, si, st) in sts:
            rv = st["rv"]
            org = M.operand_origins(bb, rv["o"], at=(bi, si)) if rv["k"] == "use" else set()
            if rv["k"] == "use" and rv["o"]["k"] == "const":
                ok = rv["o"].get("int") == 1
                what = "const %s" % rv["o"].get("int")
                # a constant 1 is only right on the creation path (expected == 0)
                zero, _ = M.edges_implying(bb, "eq", _is_expected, lambda o: any(x[0] == "const" and x[1] == "0" for x in o))
                ok = ok and bool(zero) and bb.dominated_by_edges(bi, zero)
            else:
                consts = {x[1] for x in org if x[0] == "const"}
                bins = {x[1][2] for x in org if x[0] == "bin"}
                ok = _is_expected(org) and consts == {"1"} and bins <= {"Add", "AddWithOverflow"} and bool(bins)
                what = "consts %s ops %s" % (sorted(consts), sorted(bins))
            if ok:
                cx.passed(kk, "generation-plus-one", [bb.sp(bi, si)], what)
            else:
                cx.violation(kk, "generation-plus-one", "%s: the stored generation is not expected_generation + 1 (%s): several successful updates can end at the same generation or skip one"
                             % (bb.sp(bi, si), what), [bb.sp(bi, si)])
        # the value that is stored is the one whose generation was set
    if b is not None:
        for s in M.find_calls(b, lambda c: c == SAVE):
            vo = M.operand_origins(b, b.term(s)["args"][2], at=(s, M.T))
            if any(x[0] == "upvar" and "metadata" in str(x[1]) for x in vo):
                cx.passed(k, "saved-value-is-new-metadata", [b.sp(s)])
            else:
                cx.violation(k, "saved-value-is-new-metadata", "%s: the saved shard document is not the caller's metadata with the raised generation" % b.sp(s), [b.sp(s)])


ENTRY_STORES = re.compile(r"dashmap::mapref::entry::(OccupiedEntry|VacantEntry)<[^>]*>::insert$|dashmap::(OccupiedEntry|VacantEntry)::<[^>]*>::insert$|dashmap::mapref::entry::(OccupiedEntry|VacantEntry)::<.*>::insert$")


@rule("C13", "R3", "compare and store are atomic: object store - token and content of every shard save come from the same iteration's read and a failed save is never "
      "reported as success; in-memory backend and router cache - the generation comparison and the store go through one live dashmap entry guard")
def r3(cx):
    # object store: C02's token discipline restricted to the shard object
    from rules import C02
    saved = (cx.cur_rule, cx.cur_text)
    before = len(cx.violations)
    inst_before = len(cx.instances)
    ob0, di0 = cx.obligations, cx.discharged
    C02.r3(cx)
    C02.r4(cx)
    # keep only what concerns update_shard_metadata; re-key under C13.R3
    def mine(key):
        return "update_shard_metadata" in key
    keep_v = []
    for v in cx.violations[before:]:
        if mine(v["key"]) and "anchor-missing" not in v["key"]:
            v = dict(v)
            v["key"] = v["key"].replace("C13.R3|", "C13.R3|", 1)
            keep_v.append(v)
    cx.violations[before:] = keep_v
    cx.instances[inst_before:] = [i for i in cx.instances[inst_before:] if mine(i["key"])]
    cx.floors[:] = [f for f in cx.floors if not (f["rule"] == "R3" and "atomic_save" in f["name"]) and not f["name"].startswith("mutating functions")]
    cx.obligations = ob0 + len(cx.instances[inst_before:])
    cx.discharged = di0 + len([i for i in cx.instances[inst_before:] if i["verdict"] == "holds"])
    n_obj = len([i for i in cx.instances[inst_before:]])
    cx.floor("object-store shard save instances (token / no-ok-after-failure)", n_obj, 3)
    # in-memory + router
    for fk, bk, field in ((LOCT, LOCT + "::{closure#0}", ".shard_metadata"), (ROUTER, ROUTER, ".cache")):
        b = cx.body(bk)
        if b is None:
            cx.violation(fk, "anchor-missing", "body not found", [])
            continue
        guards = {l: ty for l, ty in M.guard_locals(b).items() if "dashmap" in ty}
        raw = []
        for bi, t in b.calls():
            if re.match(r"dashmap::DashMap::<K, V, S>::(insert|remove|alter|entry)$", t["callee"]) and t["callee"].rsplit("::", 1)[1] in ("insert", "remove", "alter"):
                if M.has_field(M.operand_origins(b, t["args"][0], at=(bi, M.T)), None, field):
                    raw.append(bi)
        # comparison on the stored generation
        cmps = [sw for sw in M.cmp_switches(b) if any(".generation" in M.pl_str(o["pl"]) for o in (sw["a"], sw["b"]) if o["k"] in ("copy", "move"))
                or any(x[2].endswith(".generation") for o in (sw["a"], sw["b"]) for x in M.operand_origins(b, o, at=sw["site"]) if x[0] in ("call", "arg", "upvar"))]
        if not cmps:
            cx.violation(fk, "generation-compared", "no comparison of generations found in %s" % fk.rsplit("::", 1)[-1], [])
            continue
        bad = [r for r in raw if not any(M.held_at(b, g, r) for g in guards)]
        entry_stores = [bi for bi, t in b.calls() if re.search(r"(OccupiedEntry|VacantEntry)<.*>::insert$|(OccupiedEntry|VacantEntry)::<.*>::insert$|Entry<.*>::(insert|or_insert)", t["callee"])]
        if bad:
            cx.violation(fk, "compare-and-store-one-guard", "%s: the map is written through a fresh DashMap::%s after the generation was compared through a guard that is no longer held: "
                         "of several updates based on one generation more than one can succeed" % (b.sp(bad[0]), b.term(bad[0])["callee"].rsplit("::", 1)[1]), [b.sp(bad[0])])
        elif entry_stores or raw:
            # the comparison must read through a guard that is still held at the store
            stores = entry_stores + raw
            ok = True
            for sw in cmps:
                held = [g for g in guards if M.held_at(b, g, sw["block"])]
                if not held and guards:
                    ok = False
            if ok:
                cx.passed(fk, "compare-and-store-one-guard", [b.sp(s) for s in stores[:2]], "stores through the entry guard that served the comparison")
            else:
                cx.violation(fk, "compare-and-store-one-guard", "the generation comparison is not made under the guard that performs the store", [b.sp(s) for s in stores[:2]])
        else:
            cx.violation(fk, "compare-and-store-one-guard", "no store into the map found (fail closed)", [])
    # the in-memory compare: store dominated by equal edge / not-less edge
    lb = cx.body(LOCT + "::{closure#0}")
    if lb is not None:
        is_cur = lambda o: any(x[0] == "call" and ("OccupiedEntry" in x[1][1] or "DashMap" in x[1][1]) for x in o) and any(".generation" in x[2] for x in o)
        eq, used = M.edges_implying(lb, "eq", lambda o: any(".generation" in x[2] for x in o if x[0] == "call"), _is_expected)
        stores = [bi for bi, t in lb.calls() if re.search(r"OccupiedEntry<.*>::insert$|OccupiedEntry::<.*>::insert$", t["callee"])]
        if not stores:
            stores = [bi for bi, t in lb.calls() if t["callee"].endswith("::insert") and "Occupied" in (t.get("self_ty") or t["callee"])]
        if eq and stores and all(lb.dominated_by_edges(s, eq) for s in stores):
            cx.passed(LOCT, "update-after-generation-check", [lb.sp(s) for s in stores])
        else:
            cx.violation(LOCT, "update-after-generation-check", "the in-memory backend can replace an existing shard entry without stored generation == expected", [lb.sp(s) for s in stores])


GETSHARD = "metadata::client::MetadataClient::get_shard_metadata"
UPDSHARD = "metadata::client::MetadataClient::update_shard_metadata"


@rule("C13", "R4", "an update carries the generation it was based on: at every caller of update_shard_metadata the expected generation is either the constant 0 (creation) or the "
      "`.generation` of the very get_shard_metadata read the submitted document was derived from - never of a different (later or earlier) read")
def r4(cx):
    pa = cx.prog_all
    n = 0
    for k, c in pa.sites(lambda c: c == UPDSHARD):
        if k.startswith(("<metadata::", "metadata::")):
            continue
        b = pa.body(k)
        if b is None:
            continue
        for bi, t in b.calls():
            if t["callee"] != UPDSHARD or t.get("sp") != c["sp"]:
                continue
            n += 1
            eo = M.operand_origins(b, t["args"][3], at=(bi, M.T))
            do = M.operand_origins(b, t["args"][2], at=(bi, M.T))
            if eo and all(o[0] == "const" for o in eo):
                vals = {o[1] for o in eo}
                if vals == {"0"}:
                    cx.passed(k, "expected-generation-from-same-read@%s" % _site_no(b, bi), [b.sp(bi)], "creation (expected 0)")
                else:
                    cx.violation(k, "expected-generation-from-same-read@%s" % _site_no(b, bi), "%s: the expected generation is the constant %s, not the generation of the state the update was computed from" % (
                        b.sp(bi), sorted(vals)), [b.sp(bi)])
                continue
            er = {o[1][0] for o in eo if o[0] == "call" and o[1][1] == GETSHARD and M.strip_unwraps(o[2]).endswith(".generation")}
            # captures of the ok_or_else(|| ShardNotFound(..)) closure ride along with the adapter; only values count
            e_other = [o for o in eo if o[0] in ("call", "const", "bin", "arg") and not (o[0] == "call" and o[1][1] == GETSHARD)]
            dr = {o[1][0] for o in do if o[0] == "call" and o[1][1] == GETSHARD}
            if er and not e_other and er == dr:
                cx.passed(k, "expected-generation-from-same-read@%s" % _site_no(b, bi), [b.sp(bi)] + [b.sp(x) for x in sorted(er)])
            else:
                why = ("the expected generation is not the `.generation` of a get_shard_metadata result" if not er or e_other else
                       "the document derives from the read at %s but the expected generation from the read at %s" % ([b.sp(x) for x in sorted(dr)] or "no read", [b.sp(x) for x in sorted(er)]))
                cx.violation(k, "expected-generation-from-same-read@%s" % _site_no(b, bi), "%s: %s: a state computed from an older version is submitted under a fresher generation (or vice versa), so a "
                             "concurrent update in between is overwritten instead of being rejected as stale" % (b.sp(bi), why), [b.sp(bi)])
    cx.floor("callers of update_shard_metadata outside the metadata backends", n, 3)


def _site_no(b, bi):
    sites = sorted(x for x, t in b.calls() if t["callee"] == UPDSHARD)
    return sites.index(bi)


UPD_ROUTING = "sharding::router::ShardRouter::update_routing"


@rule("C13", "R5", "what fences must be what is compared: (a) every loader of the object-store backend returns, as the token, the ETag of the very GET whose body it parsed - not one obtained "
      "by a second request (HEAD), which can describe a newer version than the body; (b) the router's update_routing only ever replaces an entry (under the >= comparison) and "
      "never removes one: removing forgets the highest generation seen, and a delayed older document is then cached as fresh")
def r5(cx):
    n = 0
    for fk in cx.prog.fn_keys(r"^metadata::s3::ObjectStoreMetadataClient::load_[a-z_]+_with_etag$"):
        ck = cx.prog.code_key(fk)
        b = cx.body(ck)
        if b is None:
            continue
        gets = set(M.find_calls(b, lambda c: c == "object_store::ObjectStore::get"))
        if not gets:
            continue
        n += 1
        bad = None
        for (bi, si, cls) in M.exit_defs(b):
            if cls == "err" or si == M.T:
                continue
            rv = b.blocks[bi]["stmts"][si]["rv"]
            if rv["k"] != "agg" or not rv.get("ops"):
                continue
            o = M.operand_origins(b, rv["ops"][0], at=(bi, si))
            # the Ok payload is a (content, token) tuple: position .1 is the token
            comb = set(M.PURE_ADAPTERS) | {tt["callee"] for _, tt in b.calls() if tt["callee"].startswith(("std::option::Option::", "std::result::Result::"))}
            tok = M.provenance(b, {"l": rv["ops"][0]["pl"]["l"], "p": [{"f": 1, "n": "1"}]}, at=(bi, si), adapters=comb) if rv["ops"][0].get("k") in ("move", "copy") else set()
            foreign = sorted({x[1][1] for x in tok if x[0] == "call" and x[1][0] not in gets and not x[1][1].startswith(("std::", "core::", "alloc::"))})
            if foreign:
                bad = (bi, si, foreign)
        if bad:
            cx.violation(fk, "token-from-the-parsed-get", "%s: the token %s returns can come from %s, a different request than the GET whose body it parsed: generation (or content) checks are made on one "
                         "version and the conditional PUT is fenced on another, so an update based on an outdated document is accepted" % (b.sp(bad[0], bad[1]), fk.rsplit("::", 1)[1], bad[2]), [b.sp(bad[0], bad[1])])
        else:
            cx.passed(fk, "token-from-the-parsed-get", [b.sp(sorted(gets)[0])])
    cx.floor("object-store loaders that return a token", n, 5)
    ck, b = cx.need_body(UPD_ROUTING)
    if b is not None:
        rem = [bi for bi, t in b.calls() if re.search(r"(OccupiedEntry<.*>|OccupiedEntry::<.*>|DashMap::<K, V, S>)::(remove|remove_entry|remove_if|clear|retain)$", t["callee"])]
        if rem:
            cx.violation(ck, "router-never-forgets-a-generation", "%s: update_routing removes a cached entry: the highest generation seen for that shard is forgotten, and a delayed document of a "
                         "lower generation (e.g. the still-Active version of a shard already retired) is then accepted as fresh" % b.sp(rem[0]), [b.sp(rem[0])])
        else:
            cx.passed(ck, "router-never-forgets-a-generation", [b.j["span"]])


@rule("C13", "R6", "one writer of shard documents: the conditional save of a shard document (atomic_save_shard) is called only from update_shard_metadata, which compares and raises the "
      "generation - any other routine that rewrites the document (even with a correct ETag CAS) changes stored content under an unchanged generation, and an update based on the "
      "older content is then accepted and reverts it")
def r6(cx):
    ASS = "metadata::s3::ObjectStoreMetadataClient::atomic_save_shard"
    n = 0
    for k, c in cx.prog.sites(lambda c: c == ASS):
        p = named_parent(k)
        if p == ASS:
            continue
        n += 1
        if p.endswith("MetadataClient>::update_shard_metadata"):
            cx.passed(p, "shard-document-writer", [c["sp"]])
        else:
            cx.violation(p, "shard-document-writer:%s" % p.rsplit("::", 1)[1], "%s: %s writes a shard document without going through update_shard_metadata: the document changes but its generation does "
                         "not, so a writer that read the earlier content still passes the generation check and overwrites the change" % (c["sp"], p.rsplit("::", 1)[1]), [c["sp"]])
    cx.floor("callers of atomic_save_shard", n, 2)
