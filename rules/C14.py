"""C14 A shard split can be resumed from any interruption and conserves data.
Decided: persist-after-every-progress-mutation, phase table / successor table / resumability of the first state,
tolerance of 'already applied' for the fenced cut-over steps, re-entry after the last cut-over effect, clean-up only in
the Cleanup arm after Cutover, idempotent and honestly reported back-fill (deterministic target paths, a source is
marked done only after every output was uploaded AND registered, the catalog's fraction is republished on every
(re)entry).  Not decided: row conservation as multiset equality, timing of the grace periods."""
import re

from engine import hir as H
from engine import mir as M
from engine.core import rule
from engine.program import named_parent

SP = "sharding::splitter::ShardSplitter::"
MC = "metadata::client::MetadataClient::"
PERSIST = {SP + "persist_progress", SP + "remove_progress"}
EFFECT_RX = re.compile(r"^metadata::client::MetadataClient::(start_split|update_split_progress|update_shard_metadata|complete_split|register_chunk|delete_chunk)$"
                       r"|^object_store::ObjectStore::(put|delete)$"
                       r"|^sharding::splitter::ShardSplitter::(run_cutover|run_backfill_with_progress|cleanup|write_chunk_to_path|run_from_phase)$")
PROGRESS_FNS = ["execute_split_with_monitoring", "resume_split", "run_from_phase", "run_cutover", "run_backfill_with_progress", "run_backfill", "cutover"]
PHASES = ["Preparation", "DualWrite", "Backfill", "Cutover", "Cleanup"]


def _progress_place(b, pl):
    s = M.pl_str(pl, b)
    return "progress" in s or "{p}" in s


@rule("C14", "R1", "persist after every progress mutation: from each assignment to a SplitProgress field (or insertion into its done-set) no external effect and no Ok exit "
      "is reachable without passing persist_progress (remove_progress for the last phase)")
def r1(cx):
    n = 0
    for fn in PROGRESS_FNS:
        ck, b = cx.code_body(SP + fn)
        if b is None:
            continue
        persists = set(M.find_calls(b, lambda c: c in PERSIST))
        effects = set(bi for bi, t in b.calls() if EFFECT_RX.match(t["callee"]) and t["callee"] not in PERSIST)
        ok_exits = {e[0] for e in M.exit_defs(b) if e[2] == "ok"}
        sites = []
        for bi, blk in enumerate(b.blocks):
            if blk.get("cleanup"):
                continue
            for si, st in enumerate(blk["stmts"]):
                lhs = st["lhs"]
                if lhs.get("p") and _progress_place(b, lhs):
                    fld = M.pl_str(lhs).rsplit(".", 1)[-1]
                    if fld in ("completed_phase", "shard_a_created", "shard_b_created", "old_shard_deactivated", "backfill_total_chunks", "backfilled_chunks"):
                        sites.append((bi, si, fld, bi))
            t = blk["term"]
            if t["k"] == "call" and t["callee"] in ("std::collections::BTreeSet::<T, A>::insert", "std::collections::BTreeSet::<T, A>::remove") and t.get("target") is not None:
                ro = M.operand_origins(b, t["args"][0], at=(bi, M.T))
                if any(".backfilled_chunks" in x[2] for x in ro if x[0] in ("arg", "upvar", "call")):
                    sites.append((bi, M.T, "backfilled_chunks.insert", t["target"]))
        for (bi, si, fld, start) in sites:
            # a freshly built progress value that has not been persisted yet only matters once it is used: still require persist before effects
            n += 1
            if start in persists and si != M.T:
                reach = set()
            else:
                reach = b.reachable(start, removed_blocks=persists) | ({start} if start not in persists else set())
            if si != M.T and b.term(bi)["k"] == "call" and bi in effects:
                hit_eff = [bi]
            else:
                hit_eff = sorted((reach & effects) - ({bi} if si == M.T else set()))
            hit_ok = sorted(reach & ok_exits)
            # Ok exits: the statement `_0 = Ok(..)` in the same block *before* the mutation does not count
            if hit_eff or hit_ok:
                what = ("the external effect %s at %s" % (b.term(hit_eff[0])["callee"].rsplit("::", 1)[1], b.sp(hit_eff[0]))) if hit_eff else ("a successful return at %s" % b.sp(hit_ok[0]))
                cx.violation(ck, "persist-after:%s" % fld, "%s: after `progress.%s` changes, %s is reachable without persist_progress: a crash there resumes from a record that does not "
                             "describe what was done" % (b.sp(bi, si), fld, what), [b.sp(bi, si)])
            else:
                cx.passed(ck, "persist-after:%s" % fld, [b.sp(bi, si)])
    cx.floor("progress mutation sites", n, 10)


@rule("C14", "R2", "every recorded state is resumable: next_phase maps each completed phase to its successor in declaration order; run_from_phase runs DualWrite, Backfill, Cutover, "
      "Cleanup in that order, each in its own arm; resume_split redoes the idempotent preparation step when only the first record exists")
def r2(cx):
    h = cx.hir("sharding::splitter::SplitProgress::next_phase")
    t = H.tail(h["tree"]) if h["tree"].get("k") == "block" else h["tree"]
    table = {}
    if t is not None and t.get("k") == "match":
        for arm in t["arms"]:
            for alt in H.pat_alts(arm["pat"]):
                ch = [x.rsplit("::", 1)[-1] for x in H.pat_variant_chain(alt)]
                src = ch[-1] if ch else "_"
                if ch and ch[0] == "None":
                    src = "None"
                body = H.tail(arm["body"]) if arm["body"].get("k") == "block" else arm["body"]
                p, args = H.ctor_call(body)
                if p and p.endswith("Some") and args:
                    dst = (H.path_of(H.strip(args[0])) or "?").rsplit("::", 1)[-1]
                else:
                    dst = (H.path_of(H.strip(body)) or "?").rsplit("::", 1)[-1]
                table[src] = dst
    want = {"None": "Preparation", "Preparation": "DualWrite", "DualWrite": "Backfill", "Backfill": "Cutover", "Cutover": "Cleanup", "Cleanup": "None"}
    if table == want:
        cx.passed("sharding::splitter::SplitProgress::next_phase", "successor-table", [h["span"]], table)
    else:
        diff = {k: (table.get(k), v) for k, v in want.items() if table.get(k) != v}
        cx.violation("sharding::splitter::SplitProgress::next_phase", "successor-table", "%s: next_phase does not map each completed phase to its successor (got, expected): %s: a resumed split "
                     "skips or repeats a phase" % (h["span"], diff), [h["span"]])
    # phase order in run_from_phase
    hr = cx.hir(SP + "run_from_phase")
    order = None
    for n in H.walk(hr["tree"]):
        if n.get("k") == "array":
            names = [(H.path_of(H.strip(e)) or "").rsplit("::", 1)[-1] for e in n["es"]]
            if names and all(x in PHASES for x in names):
                order = names
    if order == PHASES[1:]:
        cx.passed(SP + "run_from_phase", "phase-order", [hr["span"]], order)
    else:
        cx.violation(SP + "run_from_phase", "phase-order", "run_from_phase executes the phases in the order %s, expected %s" % (order, PHASES[1:]), [hr["span"]])
    # each phase's arm performs that phase's work
    ck, b = cx.need_body(SP + "run_from_phase")
    arm_of = {}
    for bi, blk in enumerate(b.blocks):
        tt = blk["term"]
        if tt["k"] == "switch" and (tt.get("enum") or "").endswith("SplitPhase") and not blk.get("cleanup"):
            for nme, tg in zip(tt["variants"], tt["targets"]):
                arm_of.setdefault(nme, set()).add((bi, tg))
    work = {"Backfill": SP + "run_backfill_with_progress", "Cutover": SP + "run_cutover", "Cleanup": SP + "cleanup", "DualWrite": MC + "update_split_progress"}
    for ph, callee in work.items():
        cs = M.find_calls(b, lambda c, callee=callee: c == callee)
        edges = arm_of.get(ph, set())
        if cs and edges and all(b.dominated_by_edges(c, edges) for c in cs):
            cx.passed(ck, "arm:%s" % ph, [b.sp(cs[0])])
        else:
            cx.violation(ck, "arm:%s" % ph, "the work of phase %s (%s) is not confined to that phase's arm" % (ph, callee.rsplit("::", 1)[1]), [b.sp(c) for c in cs])
    # resume from the first record
    rk, rb = cx.need_body(SP + "resume_split")
    ss = M.find_calls(rb, lambda c: c == MC + "start_split")
    runs = M.find_calls(rb, lambda c: c == SP + "run_from_phase")
    if ss and runs:
        so = set()
        for a in rb.term(ss[0])["args"][1:]:
            so |= M.operand_origins(rb, a, at=(ss[0], M.T))
        from_progress = M.has_call(so, lambda c: c == SP + "load_progress")
        # ... and only then: the preparation step is redone solely when the next phase IS Preparation; re-creating a split state that is
        # merely absent resurrects a finished split (after complete_split the state is gone by design)
        te = set()
        for sw in M.bool_switches(rb):
            r = sw["root"]
            if r and r[2] == "call" and r[3]["callee"] == "std::cmp::PartialEq::eq" and (r[3].get("self_ty") or "").endswith("SplitPhase"):
                org = set()
                for a in r[3]["args"]:
                    org |= M.operand_origins(rb, a, at=(r[0], M.T))
                if M.has_call(org, lambda c: c.endswith("SplitProgress::next_phase")):
                    te.add(sw["true_edge"])
        hres = cx.hir(SP + "resume_split")
        names_prep = any(n.get("k") == "bin" and n.get("op") == "==" and any((H.path_of(H.strip(x)) or "").endswith("SplitPhase::Preparation") for x in (n["a"], n["b"]))
                         for n in H.walk(hres["tree"]))
        if not (te and names_prep and all(rb.dominated_by_edges(s, te) for s in ss)):
            cx.violation(rk, "preparation-redone-only-from-first-record", "%s: resume_split can call start_split although the recorded progress is past the preparation phase: a split whose state "
                         "was already removed by complete_split gets a fresh state (phase Preparation, 0%% back-fill) and can never finish" % rb.sp(ss[0]), [rb.sp(ss[0])])
        else:
            cx.passed(rk, "preparation-redone-only-from-first-record", [rb.sp(ss[0])])
        if from_progress:
            cx.passed(rk, "first-record-is-resumable", [rb.sp(ss[0])])
        else:
            cx.violation(rk, "first-record-is-resumable", "resume_split's start_split is not fed from the loaded progress record", [rb.sp(ss[0])])
    else:
        cx.violation(rk, "first-record-is-resumable", "resume_split cannot resume a split whose only record is the initial one (progress persisted, split state not yet in the catalog): "
                     "the later phases fail with 'No split in progress' for ever", [])


@rule("C14", "R3", "fenced cut-over steps tolerate 'already applied': each update_shard_metadata in run_cutover either takes its expected generation from a read of that shard in the same "
      "invocation, or (creation, expected 0) runs only where a read just found the shard absent")
def r3(cx):
    ck, b = cx.need_body(SP + "run_cutover")
    ups = M.find_calls(b, lambda c: c == MC + "update_shard_metadata")
    if not cx.floor("update_shard_metadata in run_cutover", len(ups), 3, ck):
        return
    for i, u in enumerate(ups):
        t = b.term(u)
        eo = M.operand_origins(b, t["args"][3], at=(u, M.T)) if t["args"][3]["k"] != "const" else {("const", str(t["args"][3].get("int")), "")}
        if M.has_call(eo, lambda c: c == MC + "get_shard_metadata"):
            cx.passed(ck, "expected-generation@%d" % i, [b.sp(u)], "from a read in this invocation")
            continue
        if all(x[0] == "const" and x[1] == "0" for x in eo) and eo:
            absent = set()
            for sw in M.bool_switches(b):
                r = sw["root"]
                if r and r[2] == "call" and r[3]["callee"] in ("std::option::Option::<T>::is_none", "std::option::Option::<T>::is_some"):
                    ao = M.operand_origins(b, r[3]["args"][0], at=(r[0], M.T))
                    if M.has_call(ao, lambda c: c == MC + "get_shard_metadata"):
                        absent.add(sw["true_edge"] if r[3]["callee"].endswith("is_none") else sw["false_edge"])
            for g in M.find_calls(b, lambda c: c == MC + "get_shard_metadata"):
                # `match get(..)? { None => create }` form
                pass
            if absent and b.dominated_by_edges(u, absent):
                cx.passed(ck, "expected-generation@%d" % i, [b.sp(u)], "creation only where the shard was just found absent")
            else:
                cx.violation(ck, "expected-generation@%d" % i, "%s: the creation passes the constant expected generation 0 unconditionally: if the create took effect in a run that was "
                             "interrupted before recording it, every resume fails with StaleGeneration for ever" % b.sp(u), [b.sp(u)])
        else:
            cx.violation(ck, "expected-generation@%d" % i, "%s: the expected generation is neither read in this invocation nor the guarded creation constant" % b.sp(u), [b.sp(u)])


@rule("C14", "R4", "re-entry after the last effect: when the split state is already gone, run_cutover succeeds if (and only if) all three recorded sub-steps are done")
def r4(cx):
    ck, b = cx.need_body(SP + "run_cutover")
    gs = M.find_calls(b, lambda c: c == MC + "get_split_state")
    if not gs:
        cx.violation(ck, "anchor-missing", "run_cutover no longer reads the split state", [])
        return
    none_edges = set()
    # the Option payload of the awaited, ?-unwrapped result
    for bi, blk in enumerate(b.blocks):
        t = blk["term"]
        if t["k"] == "switch" and (t.get("enum") or "").endswith("Option") and not blk.get("cleanup"):
            dl = t["discr"]["pl"]["l"] if t["discr"]["k"] in ("copy", "move") else None
            src = None
            for st in reversed(blk["stmts"]):
                if st["lhs"]["l"] == dl and st["rv"]["k"] == "discr":
                    src = st["rv"]["pl"]
                    break
            if src is not None and M.has_call(M.provenance(b, src, at=(bi, M.T)), lambda c: c == MC + "get_split_state"):
                for nme, tg in zip(t["variants"], t["targets"]):
                    if nme == "None":
                        none_edges.add((bi, tg))
                if "None" not in (t["variants"] or []):
                    none_edges.add((bi, t["otherwise"]))
    flags = {}
    for sw in M.bool_switches(b):
        r = sw["root"]
        if r and r[2] == "assign" and r[3]["rv"]["k"] == "use" and r[3]["rv"]["o"]["k"] in ("copy", "move"):
            ps = M.pl_str(r[3]["rv"]["o"]["pl"])
            for f in ("shard_a_created", "shard_b_created", "old_shard_deactivated"):
                if ps.endswith("." + f):
                    flags.setdefault(f, set()).add(sw["true_edge"])
    region = set()
    for e in none_edges:
        region |= b.reachable(e[1]) | {e[1]}
    oks = [e for e in M.exit_defs(b) if e[2] == "ok" and e[0] in region and not any(e[0] in (b.reachable(x) | {x}) for x in M.find_calls(b, lambda c: c == MC + "complete_split"))]
    if not none_edges:
        cx.violation(ck, "re-entrant-after-complete_split", "cannot find the branch on the split state being absent (fail closed)", [b.sp(gs[0])])
    elif not oks:
        cx.violation(ck, "re-entrant-after-complete_split", "%s: an absent split state always fails run_cutover, yet its own last effect (complete_split) removes that state before the phase is "
                     "recorded: a crash right after it makes every resume fail" % b.sp(gs[0]), [b.sp(gs[0])])
    elif len(flags) == 3 and all(all(b.dominated_by_edges(e[0], flags[f]) for f in flags) for e in oks):
        cx.passed(ck, "re-entrant-after-complete_split", [b.sp(e[0], e[1]) for e in oks])
    else:
        cx.violation(ck, "re-entrant-after-complete_split", "%s: run_cutover reports success for an absent split state without all three sub-steps being recorded as done" % b.sp(oks[0][0], oks[0][1]),
                     [b.sp(e[0], e[1]) for e in oks])


@rule("C14", "R5", "clean-up only after cut-over: cleanup is called only from the Cleanup arm of run_from_phase; the cut-over checks that the catalog reports the back-fill as complete")
def r5(cx):
    for k, c in cx.prog.sites(lambda c: c == SP + "cleanup"):
        p = named_parent(k)
        if p == SP + "run_from_phase":
            cx.passed(k, "cleanup-caller", [c["sp"]])
        else:
            cx.violation(k, "cleanup-caller", "%s: %s deletes the old shard's data outside the phase engine (before the cut-over has completed)" % (c["sp"], p), [c["sp"]])
    ck, b = cx.need_body(SP + "run_cutover")
    is_frac = lambda o: any(x[2].endswith(".backfill_progress") for x in o if x[0] in ("call", "arg", "upvar"))
    is_one = lambda o: any(x[0] == "const" and x[1] in ("1.0", "1", "1f64", "1.0f64") or (x[0] == "const" and x[1].startswith("1")) for x in o)
    ge, used = M.edges_implying(b, "le", is_one, is_frac)
    ups = M.find_calls(b, lambda c: c == MC + "update_shard_metadata")
    if ge and ups and all(b.dominated_by_edges(u, ge) for u in ups):
        cx.passed(ck, "cutover-needs-complete-backfill", [b.sp(used[0]["block"])])
    else:
        cx.violation(ck, "cutover-needs-complete-backfill", "the cut-over can create the new shards / retire the old one without the catalog reporting backfill_progress >= 1.0", [b.sp(u) for u in ups[:1]])


@rule("C14", "R6", "idempotent, honestly reported back-fill: target paths are a pure function of (target shard, source path, batch index, side); a source is marked done only after "
      "every output was written; the writer reports success only after upload AND registration; every Ok exit of the back-fill follows a republication of the fraction")
def r6(cx):
    pk = SP + "backfill_chunk_path"
    pb = cx.body(pk)
    if pb is None:
        cx.violation(pk, "anchor-missing", "body not found", [])
    else:
        impure = [t["callee"] for bi, t in pb.calls() if re.search(r"uuid|Utc::now|Instant::now|SystemTime|rand", t["callee"])]
        if impure:
            cx.violation(pk, "deterministic-target-path", "backfill_chunk_path depends on %s: a resumed back-fill writes its outputs under new names and the first attempt's files stay (rows twice)" % impure[0], [pb.j["span"]])
        else:
            cx.passed(pk, "deterministic-target-path", [pb.j["span"]])
        # every parameter (target shard, source path, batch index, side) reaches the returned name: dropping one makes two outputs share a name
        ro = M.provenance(pb, {"l": 0}, adapters=M.PURE_ADAPTERS | {tt["callee"] for _, tt in pb.calls()})
        used = {x[1] for x in ro if x[0] == "arg"}
        nargs = pb.j.get("args") or 4
        missing = [i for i in range(1, int(nargs) + 1) if i not in used]
        if missing:
            cx.violation(pk, "target-path-uses-every-parameter", "%s: parameter #%s of backfill_chunk_path does not reach the returned name" % (pb.j["span"], missing), [pb.j["span"]])
        else:
            cx.passed(pk, "target-path-uses-every-parameter", [pb.j["span"]])
    ck, b = cx.need_body(SP + "run_backfill_with_progress")
    ws = M.find_calls(b, lambda c: c == SP + "write_chunk_to_path")
    cx.floor("write_chunk_to_path calls in the back-fill", len(ws), 2, ck)
    # ... and the path is named after the SOURCE chunk: an argument of every backfill_chunk_path call is that chunk's chunk_path. A position in a list that depends on
    # what was already done (an ordinal over the pending chunks) names a different chunk on the resumed run and overwrites a finished chunk's outputs
    pcs = M.find_calls(b, lambda c: c == pk)
    if cx.floor("backfill_chunk_path calls in the back-fill", len(pcs), 2, ck):
        for pc in pcs:
            named = False
            ordinal = []
            for a in b.term(pc)["args"]:
                o = M.operand_origins(b, a, at=(pc, M.T))
                if any(".chunk_path" in x[2] for x in o if x[0] in ("call", "arg", "upvar")):
                    named = True
                if M.has_call(o, lambda c: c.endswith("Iterator::enumerate")) and any(M.has_call(M.operand_origins(b, b.term(e)["args"][0], at=(e, M.T)), lambda c: c.endswith("Iterator::filter") or c.endswith("Iterator::skip_while"))
                                                                                       for e in M.find_calls(b, lambda c: c.endswith("Iterator::enumerate"))):
                    ordinal.append(a)
            if named and not ordinal:
                cx.passed(ck, "target-path-names-the-source-chunk", [b.sp(pc)])
            else:
                cx.violation(ck, "target-path-names-the-source-chunk", "%s: an output of the back-fill is not named after its source chunk's path%s: on a resumed run the same name denotes another "
                             "chunk, the finished chunk's output is overwritten and its rows are gone after the clean-up" % (b.sp(pc), " (it uses a position among the chunks still pending)" if ordinal else ""), [b.sp(pc)])
    marks = [bi for bi, t in b.calls() if t["callee"] == "std::collections::BTreeSet::<T, A>::insert"
             and any(".backfilled_chunks" in x[2] for x in M.operand_origins(b, t["args"][0], at=(bi, M.T)) if x[0] in ("arg", "upvar", "call"))]
    fails = set()
    for w in ws + M.find_calls(b, lambda c: c == SP + "split_batch"):
        fails |= M.outcome_edges(b, w)[1]
    leak = [m for m in marks for f in fails if m in (b.reachable(f[1]) | {f[1]})]
    # marks must come after the inner loop: not reachable from a write without passing the batch iterator's end
    if marks and not leak:
        cx.passed(ck, "done-only-after-all-outputs", [b.sp(m) for m in marks])
    else:
        cx.violation(ck, "done-only-after-all-outputs", "a source chunk can be marked back-filled although writing one of its outputs failed", [b.sp(m) for m in marks])
    # both sides written: a -> new_shards[0], b -> new_shards[1]
    ups = M.find_calls(b, lambda c: c == MC + "update_split_progress")
    us = set()
    for u in ups:
        us |= M.outcome_edges(b, u)[0]
    exits = [e for e in M.exit_defs(b) if e[2] != "err"]
    bad = [e for e in exits if not (us and b.dominated_by_edges(e[0], us))]
    if bad:
        cx.violation(ck, "fraction-republished-on-every-entry", "%s: the back-fill can return Ok without having published its completed fraction to the catalog in this invocation: after an "
                     "interruption between the last persist and that update, progress file and catalog disagree for ever and the cut-over refuses ('Backfill only x%% complete')" % b.sp(bad[0][0], bad[0][1]),
                     [b.sp(e[0], e[1]) for e in bad])
    else:
        cx.passed(ck, "fraction-republished-on-every-entry", [b.sp(u) for u in ups])
    from rules.C06 import _backfill_writer
    _backfill_writer(cx)


@rule("C14", "R7", "the new shards partition the old shard's rows at the split point: the back-fill's row-partition and side-to-shard rules of C15 (R1: lower side exactly on ts < split, "
      "whole-batch short-cuts only under max < split / split <= min; R4: lower side to new_shards[0], upper side to new_shards[1]), evaluated for this property")
def r7(cx):
    import importlib
    m = importlib.import_module("rules.C15")
    ib = len(cx.instances)
    ob0, di0 = cx.obligations, cx.discharged
    for f in ("r1", "r4"):
        getattr(m, f)(cx)
    cx.obligations = ob0 + len(cx.instances[ib:])
    cx.discharged = di0 + len([i for i in cx.instances[ib:] if i["verdict"] == "holds"])


@rule("C14", "R8", "every step can be run again after it took effect: (a) in run_cutover, once the recorded flag says the old shard is not yet deactivated, nothing can fail before the "
      "deactivating update is issued (a precondition such as 'already pending deletion' is exactly the state a half-recorded first attempt leaves behind, and makes every resume fail); "
      "(b) in cleanup a failed delete of an old chunk's object or catalog entry does not fail the phase (the object of a chunk whose catalog entry was not yet removed is deleted "
      "again on resume, and a store with strict semantics answers NotFound)")
def r8(cx):
    ck, b = cx.need_body(SP + "run_cutover")
    if b is not None:
        ups = M.find_calls(b, lambda c: c == MC + "update_shard_metadata")
        flag_edges = set()
        for sw in M.bool_switches(b):
            r = sw["root"]
            if r and r[2] == "assign" and r[3]["rv"]["k"] == "use" and r[3]["rv"]["o"].get("k") in ("copy", "move") and M.pl_str(r[3]["rv"]["o"]["pl"]).endswith(".old_shard_deactivated"):
                flag_edges.add(sw["false_edge"])   # flag false -> step still to do
        if cx.floor("tests of old_shard_deactivated in run_cutover", len(flag_edges), 1, ck) and ups:
            u3 = max(ups)
            errx = {e[0] for e in M.exit_defs(b) if e[2] == "err"}
            bad = None
            for e in flag_edges:
                if not b.reaches(e[1], u3) and e[1] != u3:
                    continue
                reach = b.reachable(e[1], removed_blocks={u3}) | {e[1]}
                hit = sorted(errx & reach)
                if hit:
                    bad = hit[0]
            if bad is None:
                cx.passed(ck, "deactivation-step-rerunnable", [b.sp(u3)])
            else:
                cx.violation(ck, "deactivation-step-rerunnable", "%s: with the deactivation not yet recorded, run_cutover can fail before it re-issues the deactivating update: if the first attempt's "
                             "update took effect but its progress write did not, every resume ends here and the split can never finish" % b.sp(bad), [b.sp(bad)])
    kk, cb = cx.need_body(SP + "cleanup")
    if cb is not None:
        dels = M.find_calls(cb, lambda c: c in ("object_store::ObjectStore::delete", MC + "delete_chunk"))
        if cx.floor("deletes in cleanup", len(dels), 2, kk):
            errx = {e[0] for e in M.exit_defs(cb) if e[2] == "err"}
            for i, d in enumerate(dels):
                s, f = M.outcome_edges(cb, d)
                fatal = [e for e in f if errx & (cb.reachable(e[1], removed_blocks=set(dels) - {d}) | {e[1]})]
                # undiscriminated result (`?`-free, ignored) is tolerant by construction
                if not fatal:
                    cx.passed(kk, "cleanup-tolerates-failed-delete@%d" % i, [cb.sp(d)])
                else:
                    cx.violation(kk, "cleanup-tolerates-failed-delete@%d" % i, "%s: a failed delete aborts the clean-up phase: after an interruption between an old chunk's object delete and the removal "
                                 "of its catalog entry the resumed clean-up deletes the same object again, gets NotFound from a strict store, and can never complete" % cb.sp(d), [cb.sp(d)])
