"""C15 Dual-write routes each row to exactly one new shard; split-time reads stay exact.
Decided: the routing comparison in both split routines (row loop and any whole-batch short-cut) on comparison edges:
ts < split -> lower side, otherwise upper side; lower side -> new_shards[0], upper -> new_shards[1] at every writer;
dual-write exactly in the DualWrite / Backfill phases; a failed new-shard copy fails the write.
Known findings: the query-side de-duplication key is (timestamp, metric name) and it runs on the statement's results."""
import re

from engine import mir as M
from engine.core import rule
from engine.program import named_parent

I = "ingester::Ingester::"
SP = "sharding::splitter::ShardSplitter::"
SPLITTERS = [(I + "split_batch_by_key", "ingester"), (SP + "split_batch", "back-fill")]


def _is_split(o):
    return M.has_call(o, lambda c: c.endswith("from_be_bytes"))


def _is_ts(o):
    return M.has_call(o, lambda c: c.endswith("PrimitiveArray::<T>::value") or c.endswith("::value")) and not M.has_call(o, lambda c: c.endswith("from_be_bytes"))


def _is_max(o):
    return M.has_call(o, lambda c: re.search(r"(compute|aggregate)::max\w*$|Iterator::max$", c) is not None) and not M.has_call(o, lambda c: c.endswith("from_be_bytes"))


def _is_min(o):
    return M.has_call(o, lambda c: re.search(r"(compute|aggregate)::min\w*$|Iterator::min$", c) is not None) and not M.has_call(o, lambda c: c.endswith("from_be_bytes"))


@rule("C15", "R1", "routing: in both split routines a row goes to the lower side exactly on ts < split and to the upper side otherwise (rows at the split point go up); every returned "
      "side is either that row-by-row selection or a whole-batch short-cut guarded by max < split (lower) resp. split <= min (upper)")
def r1(cx):
    for fk, label in SPLITTERS:
        b = cx.body(fk)
        if b is None:
            cx.violation(fk, "anchor-missing", "body not found", [])
            continue
        ADP = M.PURE_ADAPTERS | {"std::convert::TryInto::try_into", "std::result::Result::<T, E>::unwrap_or", "std::result::Result::<T, E>::map_err"}
        lt, u1 = M.edges_implying(b, "lt", _is_ts, _is_split, adapters=ADP)
        ge, u2 = M.edges_implying(b, "le", _is_split, _is_ts, adapters=ADP)
        # which index vector feeds which returned position
        takes = M.find_calls(b, lambda c: c.endswith("take_record_batch"))
        side_vec = {}
        for (bi, si, cls) in M.exit_defs(b):
            if cls != "ok" or si == M.T:
                continue
            rv = b.blocks[bi]["stmts"][si]["rv"]
            if rv["k"] != "agg" or not rv["ops"]:
                continue
            tup = M.operand_origins(b, rv["ops"][0], at=(bi, si))
            for o in tup:
                if o[0] == "agg" and o[1][2] == "tuple":
                    (tb, ts_, _) = o[1]
                    trv = b.blocks[tb]["stmts"][ts_]["rv"]
                    for pos, op in enumerate(trv["ops"][:2]):
                        po = M.operand_origins(b, op, at=(tb, ts_))
                        tk = [x[1][0] for x in po if x[0] == "call" and x[1][0] in takes]
                        whole = [x for x in po if x[0] in ("arg", "upvar") and "batch" in (str(x[1]) + " " + (b.name_of(x[1]) or "" if isinstance(x[1], int) else ""))] and not tk
                        side_vec.setdefault(pos, []).append((tb, ts_, tk, whole, bi))
        if not side_vec:
            cx.violation(fk, "returns-two-sides", "%s no longer returns a pair of record batches (fail closed)" % fk, [])
            continue
        for pos in (0, 1):
            want_edges, rel = (lt, "ts < split") if pos == 0 else (ge, "split <= ts")
            for (tb, ts_, tk, whole, exit_b) in side_vec.get(pos, []):
                inst = "%s-side@%s" % ("lower" if pos == 0 else "upper", label)
                if tk:
                    # the indices given to take: find the pushes into that vector
                    t = b.term(tk[0])
                    io = M.operand_origins(b, t["args"][1], at=(tk[0], M.T), adapters=M.PURE_ADAPTERS | {"std::convert::From::from", "arrow_array::PrimitiveArray::<T>::from"})
                    vec_locals = set()
                    for x in io:
                        if x[0] == "call" and x[1][1].endswith("Vec::<T>::new"):
                            vec_locals.add(b.term(x[1][0])["dest"]["l"])
                    pushes = []
                    for pb, pt in b.calls():
                        if pt["callee"] == "std::vec::Vec::<T, A>::push" and pt["args"][0]["k"] in ("copy", "move"):
                            for (dbi, dsi, dk, pay) in b.defs().get(pt["args"][0]["pl"]["l"], []):
                                if dk == "assign" and pay["rv"]["k"] == "ref" and pay["rv"]["pl"]["l"] in vec_locals:
                                    pushes.append(pb)
                    if not pushes:
                        cx.violation(fk, inst, "%s: cannot find the row-by-row selection feeding this side (fail closed)" % b.sp(tk[0]), [b.sp(tk[0])])
                    elif want_edges and all(b.dominated_by_edges(p, want_edges) for p in pushes):
                        cx.passed(fk, inst, [b.sp(p) for p in pushes], rel)
                    else:
                        cx.violation(fk, inst, "%s: a row can be selected for the %s shard without `%s` holding: rows at the split point (or on the wrong side) end up in the wrong new shard, "
                                     "outside its key range" % (b.sp(pushes[0]), "lower" if pos == 0 else "upper", rel), [b.sp(p) for p in pushes])
                else:
                    # whole-batch (or empty) short-cut: acceptable only under max < split (lower) / split <= min (upper); an empty side is always fine
                    po = M.operand_origins(b, b.blocks[tb]["stmts"][ts_]["rv"]["ops"][pos], at=(tb, ts_))
                    empty = M.has_call(po, lambda c: c.endswith("RecordBatch::new_empty") or c.endswith("slice")) and not whole
                    if empty:
                        cx.passed(fk, inst + ":short-cut-empty", [b.sp(tb, ts_)])
                        continue
                    if pos == 0:
                        e, _ = M.edges_implying(b, "lt", _is_max, _is_split, adapters=ADP)
                        need = "max(ts) < split"
                    else:
                        e, _ = M.edges_implying(b, "le", _is_split, _is_min, adapters=ADP)
                        need = "split <= min(ts)"
                    if e and b.dominated_by_edges(tb, e):
                        cx.passed(fk, inst + ":short-cut", [b.sp(tb, ts_)], need)
                    else:
                        cx.violation(fk, inst + ":short-cut", "%s: the whole batch is routed to the %s shard without `%s` being established: a batch whose newest row lies exactly at the split "
                                     "point goes down although rows at the split point belong to the upper shard" % (b.sp(tb, ts_), "lower" if pos == 0 else "upper", need), [b.sp(tb, ts_)])
        # exactly one push per row: the two pushes sit on the two sides of one switch
        cx.floor("comparison of ts with the split point in %s" % label, len(u1), 1, fk)


@rule("C15", "R4", "sides meet their shards: the lower side is written to new_shards[0] and the upper side to new_shards[1] at the dual-write and at the back-fill, matching the key ranges the "
      "cut-over gives those shards")
def r4(cx):
    sites = [(I + "write_with_split_awareness", I + "write_to_shard", I + "split_batch_by_key", 1, 2), (SP + "run_backfill_with_progress", SP + "backfill_chunk_path", SP + "split_batch", None, 0)]
    for fk, sink, splitter, batch_arg, shard_arg in sites:
        ck, b = cx.code_body(fk)
        if b is None:
            cx.violation(fk, "anchor-missing", "body not found", [])
            continue
        calls = M.find_calls(b, lambda c, sink=sink: c == sink)
        seen = {}
        for c in calls:
            t = b.term(c)
            so = M.operand_origins(b, t["args"][shard_arg], at=(c, M.T), adapters=M.PURE_ADAPTERS - {"std::ops::Index::index"})
            idx = None
            for x in so:
                if x[0] == "call" and b.term(x[1][0])["callee"] == "std::ops::Index::index":
                    it = b.term(x[1][0])
                    if M.has_field(M.operand_origins(b, it["args"][0], at=(x[1][0], M.T)), None, ".new_shards") or any(".new_shards" in y[2] for y in M.operand_origins(b, it["args"][0], at=(x[1][0], M.T))):
                        a = it["args"][1]
                        idx = a.get("int") if a["k"] == "const" else None
            side = None
            if batch_arg is not None:
                bo = M.operand_origins(b, t["args"][batch_arg], at=(c, M.T))
                for x in bo:
                    if x[0] == "call" and x[1][1] == splitter:
                        side = M.strip_unwraps(x[2])[:2]
            else:
                # back-fill: the side is the batch written to the path built here: find the write_chunk_to_path using this path
                for w in M.find_calls(b, lambda cc: cc == SP + "write_chunk_to_path"):
                    wt = b.term(w)
                    if any(x[0] == "call" and x[1][0] == c for x in M.operand_origins(b, wt["args"][1], at=(w, M.T))):
                        for x in M.operand_origins(b, wt["args"][2], at=(w, M.T)):
                            if x[0] == "call" and x[1][1] == splitter:
                                side = M.strip_unwraps(x[2])[:2]
            seen[c] = (side, idx)
            if side in (".0", ".1") and idx is not None:
                if int(side[1]) == idx:
                    cx.passed(ck, "side%s-to-new_shards[%d]" % (side, idx), [b.sp(c)])
                else:
                    cx.violation(ck, "side%s-to-new_shards[%d]" % (side, idx), "%s: the %s side of the split is written to new_shards[%d], whose key range after the cut-over is the other half: "
                                 "the rows are in a shard that does not own them" % (b.sp(c), "lower" if side == ".0" else "upper", idx), [b.sp(c)])
            else:
                cx.violation(ck, "side-to-shard", "%s: cannot relate this write to a side of the split and an index into new_shards (side %s, index %s) (fail closed)" % (b.sp(c), side, idx), [b.sp(c)])
        cx.floor("side writes in %s" % fk.rsplit("::", 1)[1], len(calls), 2, ck)
    # cut-over key ranges: shard built from new_shards[0] gets (old.0, split_point)
    ck, b = cx.need_body(SP + "run_cutover")
    aggs = M.aggregates(b, lambda rv: rv.get("ak") == "adt" and rv.get("adt", "").endswith("sharding::ShardMetadata"))
    n = 0
    for (bi, si, st) in aggs:
        f = dict(zip(st["rv"]["fields"], st["rv"]["ops"]))
        ido = M.operand_origins(b, f["shard_id"], at=(bi, si), adapters=M.PURE_ADAPTERS - {"std::ops::Index::index"})
        idx = None
        for x in ido:
            if x[0] == "call" and b.term(x[1][0])["callee"] == "std::ops::Index::index":
                a = b.term(x[1][0])["args"][1]
                idx = a.get("int") if a["k"] == "const" else None
        if idx is None:
            continue
        n += 1
        ko = M.operand_origins(b, f["key_range"], at=(bi, si))
        tup = [x for x in ko if x[0] == "agg" and x[1][2] == "tuple"]
        ok = False
        if tup:
            (tb, ts_, _) = tup[0][1]
            ops = b.blocks[tb]["stmts"][ts_]["rv"]["ops"]
            o0 = M.operand_origins(b, ops[0], at=(tb, ts_))
            o1 = M.operand_origins(b, ops[1], at=(tb, ts_))
            sp0 = any(".split_point" in x[2] for x in o0)
            sp1 = any(".split_point" in x[2] for x in o1)
            ok = (idx == 0 and sp1 and not sp0) or (idx == 1 and sp0 and not sp1)
        if ok:
            cx.passed(ck, "key-range-of-new_shards[%d]" % idx, [b.sp(bi, si)])
        else:
            cx.violation(ck, "key-range-of-new_shards[%d]" % idx, "%s: new_shards[%d] does not get the %s half of the old key range" % (b.sp(bi, si), idx, "lower" if idx == 0 else "upper"), [b.sp(bi, si)])
    cx.floor("new-shard metadata literals in run_cutover", n, 2, ck)


@rule("C15", "R5", "dual-write exactly in the DualWrite and Backfill phases, and never silently: Ingester::write takes the split-aware path only on those two phase edges; in it every "
      "write_to_shard failure fails the write")
def r5(cx):
    found = False
    for k in cx.prog.sub_bodies(I + "write"):
        b = cx.body(k)
        if b is None:
            continue
        calls = M.find_calls(b, lambda c: c == I + "write_with_split_awareness")
        if not calls:
            continue
        found = True
        edges = set()
        others = set()
        for bi, blk in enumerate(b.blocks):
            t = blk["term"]
            if t["k"] == "switch" and (t.get("enum") or "").endswith("SplitPhase") and not blk.get("cleanup"):
                for nme, tg in zip(t["variants"], t["targets"]):
                    (edges if nme in ("DualWrite", "Backfill") else others).add((bi, tg))
                listed = set(t["variants"])
                if not {"Preparation", "Cutover", "Cleanup"} <= listed:
                    others.add((bi, t["otherwise"]))
        got = set()
        for e in edges:
            tt = b.term(e[0])
            got |= {nme for nme, tg in zip(tt["variants"], tt["targets"]) if tg == e[1]}
            if tt["otherwise"] == e[1]:
                got |= set(tt.get("allvariants") or []) - set(tt["variants"])
        # the phase that is switched on comes from a catalog read made by THIS write (or a helper every Ok exit of which performs that read) - not from a remembered answer
        GSS = "metadata::client::MetadataClient::get_split_state"
        fresh_ok = {GSS} | cx.prog.must_wrappers({GSS})
        for bi, blk in enumerate(b.blocks):
            t = blk["term"]
            if t["k"] == "switch" and (t.get("enum") or "").endswith("SplitPhase") and not blk.get("cleanup"):
                dl = t["discr"].get("pl", {}).get("l")
                src = [st["rv"]["pl"] for st in blk["stmts"] if st.get("lhs", {}).get("l") == dl and st["rv"].get("k") == "discr"]
                if not src:
                    continue
                o = M.provenance(b, src[0], at=(bi, len(blk["stmts"]) - 1))
                cs = {x[1][1] for x in o if x[0] == "call"}
                local_other = sorted(c for c in cs if c not in fresh_ok and (c in cx.prog.calls or c.startswith("ingester::")))
                if cs & fresh_ok and not local_other:
                    cx.passed(k, "phase-from-fresh-catalog-read", [b.sp(bi)])
                else:
                    cx.violation(k, "phase-from-fresh-catalog-read", "%s: the split phase that decides the dual write comes from %s, which can answer without reading the catalog in this write: "
                                 "a write accepted after the split entered dual-write / back-fill but inside the remembered answer's lifetime gets no copy in either new shard" % (
                                     b.sp(bi), local_other or sorted(cs) or "no catalog read"), [b.sp(bi)])
        if edges and got == {"DualWrite", "Backfill"} and all(b.dominated_by_edges(c, edges) for c in calls):
            cx.passed(k, "dual-write-phases", [b.sp(c) for c in calls], sorted(got))
        else:
            cx.violation(k, "dual-write-phases", "%s: the split-aware write path is not taken exactly in the DualWrite and Backfill phases (taken on %s)" % (b.sp(calls[0]), sorted(got)), [b.sp(c) for c in calls])
    if not found:
        cx.violation(I + "write", "anchor-missing:split-aware-path", "Ingester::write no longer calls write_with_split_awareness", [])
    ck, b = cx.need_body(I + "write_with_split_awareness")
    ws = M.find_calls(b, lambda c: c == I + "write_to_shard")
    oks = {e[0] for e in M.exit_defs(b) if e[2] != "err"}
    for i, w in enumerate(ws):
        s, f = M.outcome_edges(b, w)
        leak = any(oks & (b.reachable(e[1]) | {e[1]}) for e in f)
        if s and f and not leak:
            cx.passed(ck, "new-shard-copy-failure-fails-write@%d" % i, [b.sp(w)])
        else:
            cx.violation(ck, "new-shard-copy-failure-fails-write@%d" % i, "%s: the write is acknowledged although the copy for the new shard failed: during back-fill nothing repairs it and the row is "
                         "missing from the new shards after the cut-over" % b.sp(w), [b.sp(w)])


DEDUP = "query::dedup::dedup_batches"


def _dedup_pushes(b):
    """(unfiltered pushes, filtered pushes) of batches into the result vector"""
    plain, filt = [], []
    for bi, t in b.calls():
        if not t["callee"].endswith("Vec::<T, A>::push") or len(t["args"]) < 2:
            continue
        if "RecordBatch" not in b.locals[t["args"][1]["pl"]["l"]]["ty"] if t["args"][1].get("k") in ("move", "copy") else True:
            continue
        o = M.operand_origins(b, t["args"][1], at=(bi, M.T))
        (filt if M.has_call(o, lambda c: c.endswith("filter_record_batch")) else plain).append(bi)
    return plain, filt


@rule("C15", "R2", "the de-duplication key covers the whole row (every column), so rows that only share timestamp and metric name are all kept: what is inserted into the seen-set derives "
      "from ALL columns of the batch (RecordBatch::columns), not from columns picked by name")
def r2(cx):
    fk = DEDUP
    b = cx.body(fk)
    if b is None:
        cx.violation(fk, "anchor-missing", "body not found", [])
        return
    ins = [bi for bi, t in b.calls() if re.search(r"HashSet::<T, S, A>::insert$|BTreeSet::<T, A>::insert$", t["callee"])]
    if not cx.floor("seen-set inserts in dedup_batches", len(ins), 1, fk):
        return
    ADP = set(M.PURE_ADAPTERS) | {"std::iter::Iterator::enumerate", "std::iter::Iterator::next", "std::convert::AsRef::as_ref", "std::slice::<impl [T]>::to_vec"}
    for bi, t in b.calls():
        if re.search(r"arrow_row::(RowConverter::convert_columns|Rows::(iter|row)|Row::<'a>::owned|RowsIter.*::next)$", t["callee"]):
            ADP.add(t["callee"])
    for i in ins:
        o = M.operand_origins(b, b.term(i)["args"][1], at=(i, M.T), adapters=ADP)
        all_cols = M.has_call(o, lambda c: c.endswith("RecordBatch::columns"))
        named = sorted({x[1][1] for x in o if x[0] == "call" and x[1][1].endswith("RecordBatch::column_by_name")})
        picked = sorted({x[1][1].rsplit("::", 1)[1] for x in o if x[0] == "call" and re.search(r"::(value|column)$", x[1][1])})
        if all_cols and not named:
            cx.passed(fk, "dedup-key-covers-row", [b.sp(i)], "key derives from RecordBatch::columns")
        else:
            cx.violation(fk, "dedup-key-covers-row", "%s: the de-duplication key is built from %s, not from every column of the row: two series of one metric at one timestamp (different labels or "
                         "values) collapse into one row" % (b.sp(i), "columns picked by name" if named or picked else "something other than the batch's columns"), [b.sp(i)])


@rule("C15", "R6", "no silent pass-through: dedup_batches hands a batch on un-de-duplicated only when a key column is absent from the projection; a batch whose columns are present is always "
      "keyed - in particular a column type the routine does not expect (Utf8View from the parquet reader, dictionary-encoded names) must not skip the de-duplication")
def r6(cx):
    fk = DEDUP
    b = cx.body(fk)
    if b is None:
        cx.violation(fk, "anchor-missing", "body not found", [])
        return
    plain, filt = _dedup_pushes(b)
    if not cx.floor("result pushes in dedup_batches", len(plain) + len(filt), 2, fk):
        return
    ins = [bi for bi, t in b.calls() if re.search(r"HashSet::<T, S, A>::insert$|BTreeSet::<T, A>::insert$", t["callee"])]
    # edges on which a key column is known to be absent
    absent = set()
    for sw in M.bool_switches(b):
        r = sw["root"]
        if r and r[2] == "call" and r[3]["callee"].endswith("Option::<T>::is_none"):
            o = M.operand_origins(b, r[3]["args"][0], at=(r[0], M.T))
            if M.has_call(o, lambda c: c.endswith("RecordBatch::column_by_name")):
                absent.add(sw["true_edge"])
        if r and r[2] == "call" and r[3]["callee"].endswith("Option::<T>::is_some"):
            o = M.operand_origins(b, r[3]["args"][0], at=(r[0], M.T))
            if M.has_call(o, lambda c: c.endswith("RecordBatch::column_by_name")):
                absent.add(sw["false_edge"])
    for bi, blk in enumerate(b.blocks):
        t = blk["term"]
        if t["k"] == "switch" and t.get("enum") == "std::option::Option" and not blk.get("cleanup"):
            dl = t["discr"].get("pl", {}).get("l")
            src = [st["rv"]["pl"] for st in blk["stmts"] if st.get("lhs", {}).get("l") == dl and st["rv"].get("k") == "discr"]
            if src:
                o = M.provenance(b, src[0], at=(bi, len(blk["stmts"]) - 1), adapters=frozenset())
                direct = [x for x in o if x[0] == "call"]
                if direct and all(x[1][1].endswith("RecordBatch::column_by_name") and M.strip_unwraps(x[2]) == "" for x in direct):
                    for nme, tg in zip(t["variants"], t["targets"]):
                        if nme == "None":
                            absent.add((bi, tg))
                    if "None" not in (t["variants"] or []) and t.get("otherwise") is not None:
                        absent.add((bi, t["otherwise"]))
    for pb in plain:
        keyed = any(b.reaches(i, pb) for i in ins) and all(b.dominated_by_blocks(pb, {x for x, tt in b.calls() if tt["callee"].endswith("convert_columns") or x in ins}) for _ in [0])
        if keyed or (absent and b.dominated_by_edges(pb, absent)):
            cx.passed(fk, "pass-through-only-when-key-column-absent", [b.sp(pb)], "after keying" if keyed else "key column absent")
        else:
            cx.violation(fk, "pass-through-only-when-key-column-absent", "%s: a batch whose key columns are present is handed on without de-duplication (an unexpected column type skips the keying): "
                         "during a split a plain SELECT returns every double-written row twice" % b.sp(pb), [b.sp(pb)])


@rule("C15", "R7", "whether to de-duplicate is decided by the split state alone: the test in front of dedup_batches derives from has_active_split() of this request and from nothing else - "
      "not from the number of selected chunks or any other shortcut (a compaction during the split merges a row and its double-written copy into ONE chunk)")
def r7(cx):
    n = 0
    for k, c in cx.prog.sites(lambda c: c == DEDUP):
        b = cx.body(k)
        if b is None:
            continue
        n += 1
        d = c["b"]
        guards = []
        for sw in M.bool_switches(b):
            if b.dominated_by_edges(d, {sw["true_edge"]}) or b.dominated_by_edges(d, {sw["false_edge"]}):
                r = sw["root"]
                if r is None:
                    continue
                guards.append((sw, r))
        rel = []
        for sw, r in guards:
            o = set()
            if r[2] == "call":
                o = {("call", (r[0], r[3]["callee"]), "")}
                for a in r[3]["args"]:
                    o |= M.operand_origins(b, a, at=(r[0], M.T))
            elif r[2] == "assign":
                rv = r[3]["rv"]
                for key in ("o", "a", "b"):
                    if isinstance(rv.get(key), dict):
                        o |= M.operand_origins(b, rv[key], at=(r[0], r[1]))
                if rv["k"] == "bin":
                    o.add(("bin", (r[0], r[1], rv["op"]), ""))
            if M.has_call(o, lambda cc: cc.endswith("MetadataClient::has_active_split")) or any(x[0] == "bin" for x in o) or M.has_call(o, lambda cc: cc.endswith("::len") or cc.endswith("is_empty")):
                rel.append((sw, o))
        if not rel:
            cx.violation(k, "dedup-decided-by-split-state-alone", "%s: no test on has_active_split() guards the de-duplication" % c["sp"], [c["sp"]])
            continue
        bad = []
        for sw, o in rel:
            other = sorted({x[1][1] for x in o if x[0] == "call" and not x[1][1].endswith("has_active_split") and (x[1][1].endswith("::len") or x[1][1].endswith("is_empty") or x[1][1] in cx.prog.calls)})
            bins = sorted({str(x[1][2]) for x in o if x[0] == "bin"})
            if other or bins:
                bad.append((sw, other, bins))
        if bad:
            sw, other, bins = bad[0]
            cx.violation(k, "dedup-decided-by-split-state-alone", "%s: the de-duplication also depends on %s: a request on which that shortcut says 'no duplicates possible' is not de-duplicated although "
                         "a split is in its dual-write / back-fill phase" % (b.sp(sw["block"]), other or bins), [b.sp(sw["block"]), c["sp"]])
        else:
            cx.passed(k, "dedup-decided-by-split-state-alone", [c["sp"]])
    cx.floor("dedup_batches call sites", n, 1)


@rule("C15", "R3", "de-duplication runs on stored rows, not on the statement's results (after aggregation it cannot undo double counting)")
def r3(cx):
    for k, c in cx.prog.sites(lambda c: c == "query::dedup::dedup_batches"):
        b = cx.body(k)
        org = M.operand_origins(b, b.term(c["b"])["args"][0], at=(c["b"], M.T))
        if M.has_call(org, lambda x: x.endswith("QueryEngine::with_metrics_table") or x.endswith("QueryEngine::execute") or x.endswith("QueryEngine::execute_with_indexes")):
            cx.violation(k, "dedup-on-results", "%s: dedup_batches is applied to the output of the statement: for `SELECT count(*)` the double-written copies were already counted" % c["sp"], [c["sp"]])
        else:
            cx.passed(k, "dedup-on-results", [c["sp"]])
