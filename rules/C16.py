"""C16 The tiered cache is transparent.
Decided: the cache key is the object path and the miss path fetches that same path; inside get_or_fetch every tier
lookup / insert uses the key parameter and inserts only a successfully fetched value; every read method of the caching
store delegates unchanged or goes through that keyed path; every field of GetOptions that can change the answer sends
the request past the cache; delete / rename invalidate.  Not decided: eviction / promotion inside moka and foyer,
coalescing of concurrent misses."""
import re

from engine import mir as M
from engine.core import rule

CS = "<query::cached_store::CachedObjectStore as object_store::ObjectStore>::"
GOF = "query::cache::TieredCache::get_or_fetch"
DELEGATES = ["get_range", "head", "list", "list_with_offset", "list_with_delimiter", "put", "put_opts", "put_multipart", "put_multipart_opts", "copy", "copy_if_not_exists", "rename", "delete"]


def _loc(o):
    return any(x[0] in ("upvar", "arg") and ("location" in str(x[1]) or x[1] == 2) for x in o)


@rule("C16", "R1", "key = object path: CachedObjectStore::get keys the cache by `location` and its miss closure reads that same `location` from the backing store; in "
      "get_or_fetch every L1 / L2 lookup and insert uses the key parameter, and only a successfully fetched value is inserted")
def r1(cx):
    gk = CS + "get::{closure#0}"
    b = cx.body(gk)
    if b is None:
        cx.violation(CS + "get", "anchor-missing", "body not found", [])
        return
    gofs = M.find_calls(b, lambda c: c == GOF)
    if not cx.floor("get_or_fetch calls in CachedObjectStore::get", len(gofs), 1, gk):
        return
    t = b.term(gofs[0])
    ko = M.operand_origins(b, t["args"][1], at=(gofs[0], M.T))
    foreign = [x for x in ko if x[0] == "call" or (x[0] == "const" and not x[1].startswith("promoted"))]
    if any(x[0] == "upvar" and "location" in str(x[1]) for x in ko) and not foreign:
        cx.passed(gk, "key-is-location", [b.sp(gofs[0])])
    else:
        cx.violation(gk, "key-is-location", "%s: the cache key is not derived from the requested location alone (%s): two objects can share an entry, or one object several" % (
            b.sp(gofs[0]), [str(x[1])[:40] for x in foreign][:3]), [b.sp(gofs[0])])
    # the miss closure reads the same location
    clo = None
    a = t["args"][2]
    for (bi, si, k, pay) in b.defs().get(a["pl"]["l"], []) if a["k"] in ("copy", "move") else []:
        if k == "assign" and pay["rv"]["k"] == "agg" and pay["rv"].get("ak") == "closure":
            clo = (pay["rv"], bi, si)
    ok = False
    if clo:
        rv, bi, si = clo
        caps = dict(zip(rv["fields"], rv["ops"]))
        loc_caps = [n for n, o in caps.items() if any(x[0] == "upvar" and "location" in str(x[1]) for x in M.operand_origins(b, o, at=(bi, si)))]
        # in the closure's async block: inner.get(&<captured loc>)
        for k2 in cx.prog.sub_bodies(rv["def"]):
            cb = cx.body(k2)
            if cb is None:
                continue
            for g in M.find_calls(cb, lambda c: c == "object_store::ObjectStore::get"):
                ao = M.operand_origins(cb, cb.term(g)["args"][1], at=(g, M.T))
                if any(x[0] == "upvar" and str(x[1]) in loc_caps for x in ao):
                    ok = True
    # no error of the backing store is swallowed on the miss path: from the failure edge of any Result switch no Ok exit is reachable
    if clo:
        for k2 in cx.prog.sub_bodies(clo[0]["def"]):
            cb = cx.body(k2)
            if cb is None or cx.prog.calls[k2].get("kind") != "coroutine":
                continue
            okx = {e[0] for e in M.exit_defs(cb) if e[2] == "ok"}
            swallowed = []
            for bi, blk in enumerate(cb.blocks):
                tt = blk["term"]
                if tt["k"] != "switch" or blk.get("cleanup") or not (tt.get("enum") or "").endswith("::Result"):
                    continue
                fe = [(bi, tg) for nme, tg in zip(tt["variants"], tt["targets"]) if nme == "Err"]
                if "Err" not in (tt["variants"] or []):
                    fe.append((bi, tt["otherwise"]))
                for e in fe:
                    if okx & (cb.reachable(e[1]) | {e[1]}):
                        swallowed.append(bi)
            # what the miss path returns (and what is then cached under the key) is the body of that ONE whole-object GET - not bytes assembled from other requests
            gets_here = set(M.find_calls(cb, lambda c: c == "object_store::ObjectStore::get"))
            if gets_here:
                for (ebi, esi, ecls) in M.exit_defs(cb):
                    if ecls != "ok" or esi == M.T:
                        continue
                    erv = cb.blocks[ebi]["stmts"][esi]["rv"]
                    if erv["k"] != "agg" or not erv.get("ops"):
                        continue
                    eo = M.operand_origins(cb, erv["ops"][0], at=(ebi, esi))
                    srcs = {x[1][1] for x in eo if x[0] == "call"}
                    body_calls = {c for c in srcs if re.search(r"GetResult::(bytes|into_stream)$", c)}
                    foreign = sorted(c for c in srcs - body_calls if not c.startswith(("std::", "core::", "alloc::", "bytes::", "futures::")) or "get_range" in c)
                    if body_calls and not foreign:
                        cx.passed(k2, "miss-returns-the-whole-object-get", [cb.sp(ebi, esi)])
                    else:
                        cx.violation(k2, "miss-returns-the-whole-object-get", "%s: on a miss the bytes returned (and cached under the key) can come from %s instead of the body of the one whole-object GET: "
                                     "an object put together from several requests (ranged parts arriving out of order, another version in between) is not the object the store holds" % (
                                         cb.sp(ebi, esi), foreign or "something other than GetResult::bytes"), [cb.sp(ebi, esi)])
            if swallowed:
                cx.violation(k2, "miss-path-swallows-store-error", "%s: on the cache-miss path an error of the backing store (e.g. a body stream failing after the first chunk) is dropped and the "
                             "closure still returns Ok: a truncated body is handed to the reader and cached under the object's key" % cb.sp(swallowed[0]), [cb.sp(s) for s in swallowed[:2]])
            else:
                cx.passed(k2, "miss-path-swallows-store-error", [cb.j["span"]])
    if ok:
        cx.passed(gk, "miss-reads-same-location", [b.sp(gofs[0])])
    else:
        cx.violation(gk, "miss-reads-same-location", "%s: on a miss the closure does not fetch the requested location from the backing store: content of another object would be cached under this key" % b.sp(gofs[0]), [b.sp(gofs[0])])
    fk, fb = cx.need_body(GOF)
    tier_calls = [(bi, tt) for bi, tt in fb.calls() if re.search(r"(moka::future::Cache|foyer\w*::\w*HybridCache|foyer::HybridCache)<?.*::(get|insert|remove|invalidate|obtain|fetch)$", tt["callee"])
                  or re.search(r"::(Cache|HybridCache)::<.*>::(get|insert)$", tt["callee"])]
    cx.floor("tier lookups / inserts in get_or_fetch", len(tier_calls), 4, fk)
    fetches = [bi for bi, tt in fb.calls() if tt["callee"] in ("std::ops::FnOnce::call_once",)]
    fs = set()
    for f in fetches:
        fs |= M.outcome_edges(fb, f)[0]
    for bi, tt in tier_calls:
        op = tt["callee"].rsplit("::", 1)[1]
        ko = M.operand_origins(fb, tt["args"][1], at=(bi, M.T))
        if any(x[0] == "upvar" and "key" in str(x[1]) for x in ko) and not any(x[0] == "call" for x in ko):
            cx.passed(fk, "tier-%s-uses-key" % op, [fb.sp(bi)])
        else:
            cx.violation(fk, "tier-%s-uses-key" % op, "%s: a cache tier is accessed under something other than the requested key" % fb.sp(bi), [fb.sp(bi)])
    # inserts: value from the fetch (dominated by its success) or from the L2 hit for the same key
    for bi, tt in tier_calls:
        if not tt["callee"].endswith("insert"):
            continue
        vo = M.operand_origins(fb, tt["args"][2], at=(bi, M.T), adapters=M.PURE_ADAPTERS | {"bytes::Bytes::to_vec", "std::sync::Arc::<T>::new", "bytes::Bytes::from", "std::convert::From::from", "std::slice::<impl [T]>::to_vec"})
        from_fetch = any(x[0] == "call" and x[1][0] in fetches for x in vo)
        from_l2 = any(x[0] == "call" and re.search(r"HybridCache.*::get$|CacheEntry.*::value$", x[1][1]) for x in vo)
        if from_fetch and fs and fb.dominated_by_edges(bi, fs):
            cx.passed(fk, "insert-after-successful-fetch", [fb.sp(bi)])
        elif from_l2 and not from_fetch:
            cx.passed(fk, "promotion-of-same-key", [fb.sp(bi)])
        else:
            cx.violation(fk, "insert-after-successful-fetch", "%s: a value is inserted into a cache tier that is not the successfully fetched content (or the L2 entry of the same key)" % fb.sp(bi), [fb.sp(bi)])
    # returned data: L1 hit, L2 hit or the fetched value - nothing else
    exits = [e for e in M.exit_defs(fb) if e[2] == "ok"]
    cx.floor("Ok exits of get_or_fetch", len(exits), 3, fk)
    tier_blocks = {bi for bi, tt in tier_calls if tt["callee"].endswith("::get")}
    for (bi, si, cls) in exits:
        if si == M.T:
            continue
        rv = fb.blocks[bi]["stmts"][si]["rv"]
        if rv["k"] != "agg" or not rv["ops"]:
            continue
        org = M.operand_origins(fb, rv["ops"][0], at=(bi, si), adapters=M.PURE_ADAPTERS | {"std::sync::Arc::<T>::new", "bytes::Bytes::from", "std::convert::From::from", "foyer::CacheEntry::<K, V, S>::value"})
        srcs = {x[1][0] for x in org if x[0] == "call"}
        allowed = tier_blocks | set(fetches)
        foreign = sorted(srcs - allowed)
        foreign = [x for x in foreign if not re.search(r"fetch_add|record_cache|telemetry|Instant|elapsed", fb.term(x)["callee"])]
        if srcs & allowed and not foreign:
            cx.passed(fk, "returns-only-this-keys-content", [fb.sp(bi, si)])
        else:
            cx.violation(fk, "returns-only-this-keys-content", "%s: get_or_fetch can return data that is neither a tier's entry for this key nor the content this call fetched (from %s): "
                         "a reader is answered with another object's bytes" % (fb.sp(bi, si), [fb.term(x)["callee"].rsplit("::", 2)[-2:] for x in foreign][:2] or "nothing recognisable"), [fb.sp(bi, si)])


@rule("C16", "R2", "every other method of the caching store delegates to the backing store's method of the same name with its own arguments (delete / rename invalidate first)")
def r2(cx):
    for m in DELEGATES:
        keys = [k for k in cx.prog.sub_bodies(CS + m)]
        found = False
        for k in keys:
            b = cx.body(k)
            if b is None:
                continue
            calls = M.find_calls(b, lambda c, m=m: c == "object_store::ObjectStore::" + m)
            if not calls:
                continue
            found = True
            t = b.term(calls[0])
            recv = M.operand_origins(b, t["args"][0], at=(calls[0], M.T))
            okr = M.has_field(recv, None, ".inner")
            oka = True
            for i, a in enumerate(t["args"][1:]):
                ao = M.operand_origins(b, a, at=(calls[0], M.T))
                if not any(x[0] in ("upvar", "arg") and str(x[1]) not in ("self",) for x in ao) or any(x[0] == "call" for x in ao):
                    oka = False
            # result returned as is
            exits = M.exit_defs(b)
            if okr and oka:
                cx.passed(CS + m, "delegates-unchanged", [b.sp(calls[0])])
            else:
                cx.violation(CS + m, "delegates-unchanged", "%s: CachedObjectStore::%s does not hand its own arguments to the backing store's %s" % (b.sp(calls[0]), m, m), [b.sp(calls[0])])
            if m in ("delete", "rename"):
                inv = M.find_calls(b, lambda c: c.endswith("TieredCache::invalidate"))
                io = M.operand_origins(b, b.term(inv[0])["args"][1], at=(inv[0], M.T)) if inv else set()
                first = t["args"][1]
                same = {x[1] for x in io if x[0] == "upvar"} & {x[1] for x in M.operand_origins(b, first, at=(calls[0], M.T)) if x[0] == "upvar"}
                if inv and same and b.dominated_by_blocks(calls[0], set(inv)):
                    cx.passed(CS + m, "invalidates-before-forwarding", [b.sp(inv[0])])
                else:
                    cx.violation(CS + m, "invalidates-before-forwarding", "CachedObjectStore::%s does not invalidate the affected key before forwarding: a later read is answered from content the store no longer has" % m, [b.sp(calls[0])])
        if not found:
            cx.violation(CS + m, "delegates-unchanged", "CachedObjectStore::%s no longer calls the backing store's %s" % (m, m), [])


@rule("C16", "R3", "options that change the answer bypass the cache: the cached path of get_opts is reachable only where every field of GetOptions is absent / false, "
      "and the bypass forwards the caller's options unchanged")
def r3(cx):
    gk = CS + "get_opts::{closure#0}"
    b = cx.body(gk)
    if b is None:
        cx.violation(CS + "get_opts", "anchor-missing", "body not found", [])
        return
    adt = cx.lib.adts.get("object_store::GetOptions")
    fields = [(f["name"], f["ty"]) for f in adt["variants"][0]["fields"]] if adt else []
    if not cx.floor("fields of object_store::GetOptions", len(fields), 7, gk):
        return
    cached = M.find_calls(b, lambda c: c in ("object_store::ObjectStore::get", CS + "get", GOF)) 
    cached = [c for c in cached if not M.has_field(M.operand_origins(b, b.term(c)["args"][0], at=(c, M.T)), None, ".inner")]
    if not cached:
        cx.passed(gk, "no-cached-path", [], "get_opts never answers from the cache")
        return
    absent = {}
    for sw in M.bool_switches(b):
        r = sw["root"]
        if not r:
            continue
        if r[2] == "call" and r[3]["callee"] in ("std::option::Option::<T>::is_some", "std::option::Option::<T>::is_none"):
            ao = M.operand_origins(b, r[3]["args"][0], at=(r[0], M.T))
            for x in ao:
                if x[0] == "upvar" and "options" in str(x[1]):
                    f = x[2].lstrip(".").split(".")[0]
                    absent.setdefault(f, set()).add(sw["false_edge"] if r[3]["callee"].endswith("is_some") else sw["true_edge"])
        elif r[2] == "assign" and r[3]["rv"]["k"] == "use" and r[3]["rv"]["o"]["k"] in ("copy", "move"):
            for x in M.operand_origins(b, r[3]["rv"]["o"], at=(r[0], r[1])):
                if x[0] == "upvar" and "options" in str(x[1]) and x[2]:
                    absent.setdefault(x[2].lstrip(".").split(".")[0], set()).add(sw["false_edge"])
    for (f, ty) in fields:
        e = absent.get(f, set())
        if e and all(b.dominated_by_edges(c, e) for c in cached):
            cx.passed(gk, "bypass:%s" % f, [b.sp(cached[0])])
        else:
            cx.violation(gk, "bypass:%s" % f, "%s: a get_opts request with `%s` set can be answered from the cache (whole body, unconditionally): the caller sees something the backing store "
                         "would not return" % (b.sp(cached[0]), f), [b.sp(cached[0])])
    byp = [c for c in M.find_calls(b, lambda c: c == "object_store::ObjectStore::get_opts") if M.has_field(M.operand_origins(b, b.term(c)["args"][0], at=(c, M.T)), None, ".inner")]
    for c in byp:
        oo = M.operand_origins(b, b.term(c)["args"][2], at=(c, M.T))
        lo = M.operand_origins(b, b.term(c)["args"][1], at=(c, M.T))
        if any(x[0] == "upvar" and "options" in str(x[1]) and x[2] == "" for x in oo) and not any(x[0] in ("call", "agg") for x in oo) and any(x[0] == "upvar" and "location" in str(x[1]) for x in lo):
            cx.passed(gk, "bypass-forwards-options", [b.sp(c)])
        else:
            cx.violation(gk, "bypass-forwards-options", "%s: the bypass does not forward the caller's location and options unchanged" % b.sp(c), [b.sp(c)])
    cx.floor("bypass calls in get_opts", len(byp), 1, gk)


INV = "query::cache::TieredCache::invalidate"


def _is_l2_discr(body, bi):
    """block bi switches on the discriminant of a place ending in the `.l2` field; returns the non-Some edges"""
    t = body.blocks[bi]["term"]
    if t["k"] != "switch" or t.get("enum") != "std::option::Option":
        return None
    d = t["discr"].get("pl", {}).get("l")
    for si, st in enumerate(body.blocks[bi]["stmts"]):
        rv = st.get("rv") or {}
        if st.get("lhs", {}).get("l") == d and rv.get("k") == "discr":
            # the tested Option is self.l2, directly or through as_ref / as_deref / a copy of it
            o = M.provenance(body, rv["pl"], at=(bi, si))
            if M.has_field(o, None, ".l2") and not any(x[0] == "call" for x in o):
                edges = set()
                for nme, tg in zip(t["variants"], t["targets"]):
                    if nme != "Some":
                        edges.add((bi, tg))
                if "Some" in (t["variants"] or []) and t.get("otherwise") is not None:
                    edges.add((bi, t["otherwise"]))
                return edges
    return None


@rule("C16", "R4", "invalidation reaches every tier: every return of TieredCache::invalidate is dominated by the (awaited) L1 removal of the key and either by the "
      "L2 removal of the key or by the `l2 is None` edge - no early exit can leave the key in the disk tier")
def r4(cx):
    ck, b = cx.need_body(INV)
    if b is None:
        return
    def keyed(bi):
        o = M.operand_origins(b, b.term(bi)["args"][1], at=(bi, M.T))
        return any(x[0] in ("upvar", "arg") and "key" in str(x[1]) for x in o) and not any(x[0] == "call" for x in o)
    l1 = [bi for bi, t in b.calls() if re.search(r"moka::future::Cache::<.*>::(invalidate|remove)$", t["callee"])]
    l1poll = [bi for bi, t in b.calls() if t["callee"].endswith("Future::poll") and re.search(r"moka::future::Cache::<.*>::(invalidate|remove)::\{closure#0\}$", t.get("resolved") or "")]
    l2 = [bi for bi, t in b.calls() if re.search(r"HybridCache::<.*>::remove$", t["callee"])]
    if not (cx.floor("L1 removal in TieredCache::invalidate", len(l1), 1, ck) and cx.floor("L1 removal awaited", len(l1poll), 1, ck)
            and cx.floor("L2 removal in TieredCache::invalidate", len(l2), 1, ck)):
        return
    for bi in l1 + l2:
        if keyed(bi):
            cx.passed(ck, "removes-the-key:%s" % ("l1" if bi in l1 else "l2"), [b.sp(bi)])
        else:
            cx.violation(ck, "removes-the-key:%s" % ("l1" if bi in l1 else "l2"), "%s: the tier entry removed is not the one of the key being invalidated" % b.sp(bi), [b.sp(bi)])
    rets = [bi for bi, blk in enumerate(b.blocks) if blk["term"]["k"] == "return" and not blk.get("cleanup")]
    cx.floor("returns of TieredCache::invalidate", len(rets), 1, ck)
    ready = set()
    for p in l1poll:
        tg = b.term(p).get("target")
        if tg is not None:
            ready.add((p, tg))
    l2edges = set()
    for bi in range(len(b.blocks)):
        e = _is_l2_discr(b, bi)
        if e:
            l2edges |= e
    for x in l2:
        tg = b.term(x).get("target")
        if tg is not None:
            l2edges.add((x, tg))
    for r in rets:
        ok1 = b.dominated_by_edges(r, ready)
        ok2 = b.dominated_by_edges(r, l2edges)
        if ok1 and ok2:
            cx.passed(ck, "every-tier-before-return", [b.sp(r)])
        else:
            cx.violation(ck, "every-tier-before-return", "%s: invalidate can return without removing the key from %s: after delete / rename a read is still answered from the stale entry "
                         "(e.g. the key was evicted from L1 but lives on in L2)" % (b.sp(r), "L1" if not ok1 else "the L2 tier"), [b.sp(r)])


@rule("C16", "R5", "no answer from memory of an absence: every exit of CachedObjectStore::get - success or failure - lies behind the keyed get_or_fetch call, and every exit of "
      "get_opts behind either that cached get or the backing store's get_opts; the caching store cannot answer (in particular: fail) without consulting a tier or the store")
def r5(cx):
    gk = CS + "get::{closure#0}"
    b = cx.body(gk)
    if b is None:
        cx.violation(CS + "get", "anchor-missing", "body not found", [])
        return
    gofs = set(M.find_calls(b, lambda c: c == GOF))
    if cx.floor("get_or_fetch calls in CachedObjectStore::get", len(gofs), 1, gk):
        exits = M.exit_defs(b)
        cx.floor("exits of CachedObjectStore::get", len(exits), 2, gk)
        bad = [e for e in exits if not b.dominated_by_blocks(e[0], gofs)]
        if bad:
            cx.violation(CS + "get", "answers-only-after-lookup", "%s: get can return (%s) without having consulted the cache tiers or the backing store for this key: an object the store holds is "
                         "reported from remembered state instead of from its bytes" % (b.sp(bad[0][0], bad[0][1]), bad[0][2]), [b.sp(bad[0][0], bad[0][1])])
        else:
            cx.passed(CS + "get", "answers-only-after-lookup", [b.sp(sorted(gofs)[0])])
    ok_ = CS + "get_opts::{closure#0}"
    ob = cx.body(ok_)
    if ob is None:
        cx.violation(CS + "get_opts", "anchor-missing", "body not found", [])
        return
    srcs = set(M.find_calls(ob, lambda c: c in ("object_store::ObjectStore::get_opts", "object_store::ObjectStore::get", CS + "get")))
    if cx.floor("lookups in CachedObjectStore::get_opts", len(srcs), 2, ok_):
        exits = M.exit_defs(ob)
        bad = [e for e in exits if not ob.dominated_by_blocks(e[0], srcs)]
        if bad:
            cx.violation(CS + "get_opts", "answers-only-after-lookup", "%s: get_opts can return (%s) without the cached get or the backing store's get_opts having been asked" % (
                ob.sp(bad[0][0], bad[0][1]), bad[0][2]), [ob.sp(bad[0][0], bad[0][1])])
        else:
            cx.passed(CS + "get_opts", "answers-only-after-lookup", [ob.sp(sorted(srcs)[0])])


@rule("C16", "R6", "what is handed back on the cached path is the cached buffer, whole: the payload of the GetResult built by CachedObjectStore::get is a one-item stream of the cached bytes - "
      "not pieces cut from it by a routine of the crate (a piece count rounded down loses the tail while meta.size and range still announce the full object)")
def r6(cx):
    gk = CS + "get::{closure#0}"
    b = cx.body(gk)
    if b is None:
        cx.violation(CS + "get", "anchor-missing", "body not found", [])
        return
    aggs = M.aggregates(b, lambda rv: rv.get("ak") == "adt" and (rv.get("adt") or "").endswith("object_store::GetResult"))
    if not cx.floor("GetResult constructions in CachedObjectStore::get", len(aggs), 1, gk):
        return
    for (bi, si, st) in aggs:
        rv = st["rv"]
        if "payload" not in (rv.get("fields") or []):
            continue
        o = M.operand_origins(b, rv["ops"][rv["fields"].index("payload")], at=(bi, si))
        calls = {x[1][1] for x in o if x[0] == "call"}
        local = sorted(c for c in calls if c in cx.prog.calls or c.startswith(("query::", "<query::")))
        cutting = sorted(c for c in calls if re.search(r"Bytes::(slice|split_to|split_off|truncate|slice_ref)$|stream::iter$|Iterator::map$", c))
        once = any(c.endswith("stream::once") or c.endswith("stream::once::once") for c in calls)
        # the async block that yields the item: it must hand on the captured bytes as they are
        blocks_defs = []
        for x in o:
            if x[0] == "call" and x[1][1].endswith("stream::once"):
                a0 = b.term(x[1][0])["args"][0]
                if a0.get("k") in ("move", "copy"):
                    for (dbi, dsi, dk, pay) in b.defs().get(a0["pl"]["l"], []):
                        if dk == "assign" and pay["rv"].get("k") == "agg" and pay["rv"].get("def"):
                            blocks_defs.append(pay["rv"]["def"])
        for dname in blocks_defs:
            if True:
                for k2 in cx.prog.sub_bodies(dname):
                    sb = cx.body(k2)
                    if sb is None:
                        continue
                    for _, tt in sb.calls():
                        if re.search(r"Bytes::(slice|split_to|split_off|truncate|slice_ref)$", tt["callee"]):
                            cutting.append(tt["callee"])
                        elif tt["callee"] in cx.prog.calls and "::{closure" not in tt["callee"]:
                            local.append(tt["callee"])
        if once and not local and not cutting:
            cx.passed(CS + "get", "payload-is-the-whole-cached-buffer", [b.sp(bi, si)])
        else:
            cx.violation(CS + "get", "payload-is-the-whole-cached-buffer", "%s: the payload returned on the cached path is built by %s rather than a one-item stream of the cached bytes: a reader can "
                         "receive fewer (or other) bytes than the backing store holds although size and range say otherwise" % (b.sp(bi, si), local or cutting or sorted(calls)[:3]), [b.sp(bi, si)])
