"""C17 Ingest protocol conversion is faithful, and no payload can crash the receiver.
Decided: (R1) every panic site (overflow / bounds / shift asserts, unwrap, slicing, arrow value(i)) in the code that
runs on request bytes is either discharged automatically from the comparisons that guard it, or matches a reviewed
entry whose stated guard is re-verified on every run; otherwise it is reported; (R2) lock-step columns in the
remote-write conversion; (R3) units and names (ms -> ns, metric name by a scan for __name__, every other label kept,
OTLP timestamps unscaled, OTLP resource labels computed per ResourceMetrics).
Not decided: numeric equality of value routing (2^63 edge), prost / snappy / arrow decoders."""
import re

from engine import hir as H
from engine import mir as M
from engine.core import rule
from engine.program import named_parent

PROM = "api::ingest::prometheus::"
SCOPE_RX = re.compile(r"^(api::ingest::|<api::ingest::)|^ingester::Ingester::(write|compute_shard_id|extract_metrics)(::\{closure#\d+\})*$|^sharding::(TimeBucket|ShardKey)::[a-z_0-9]+$")
PANIC_CALL = re.compile(r"::(unwrap|expect|unwrap_err|expect_err)$|^std::ops::Index(Mut)?::index(_mut)?$|copy_from_slice$|::value$|split_at(_mut)?$|panicking::|swap_remove$|Vec::<T, A>::remove$|unwrap_unchecked$")
# results of these local functions are positions inside the input: reviewed summaries
BOUNDED_POS = {PROM + "read_varint": ".1", PROM + "field_end": ""}   # read_varint -> (value, new_pos <= data.len());  field_end -> pos <= end <= data.len()


def _root(b, op, depth=0):
    """root local of an operand through single-definition plain copies"""
    if op["k"] not in ("copy", "move") or op["pl"].get("p"):
        return None
    l = op["pl"]["l"]
    for _ in range(8):
        ds = [d for d in b.defs().get(l, []) if not (d[2] == "assign" and d[3]["lhs"].get("p"))]
        if len(ds) == 1 and ds[0][2] == "assign" and ds[0][3]["rv"]["k"] == "use" and ds[0][3]["rv"]["o"]["k"] in ("copy", "move") and not ds[0][3]["rv"]["o"]["pl"].get("p") and b.name_of(l) is None:
            l = ds[0][3]["rv"]["o"]["pl"]["l"]
        else:
            break
    return l


def _len_like(b, op, at):
    if op["k"] == "const":
        return False
    o = M.operand_origins(b, op, at=at, adapters=M.PURE_ADAPTERS - {"std::vec::Vec::<T, A>::len"})
    if M.has_call(o, lambda c: c.endswith("::len") or c.endswith("num_rows")):
        return True
    # PtrMetadata(slice)
    l = _root(b, op)
    for (bi, si, k, pay) in b.defs().get(l, []) if l is not None else []:
        if k == "assign" and pay["rv"]["k"] == "un" and pay["rv"]["op"] == "PtrMetadata":
            return True
    return any(x[0] == "other" and "PtrMetadata" in str(x[1]) for x in o)


def _guards(b, local):
    """edges that bound `local`: x < len-like, x < const, x <= len-like (from switches and from bounds asserts)"""
    lt, le = set(), set()
    for sw in M.cmp_switches(b):
        for swapped, (a, c) in ((False, (sw["a"], sw["b"])), (True, (sw["b"], sw["a"]))):
            if _root(b, a) != local:
                continue
            bounded = c["k"] == "const" or _len_like(b, c, sw["site"])
            if not bounded:
                continue
            e = M._IMPLY["lt"].get((sw["op"], swapped))
            if e:
                lt.add(sw[e])
            e = M._IMPLY["le"].get((sw["op"], swapped))
            if e:
                le.add(sw[e])
    for bi, blk in enumerate(b.blocks):
        t = blk["term"]
        if t["k"] == "assert" and t["akind"] == "BoundsCheck" and not blk.get("cleanup"):
            if _root(b, t["aops"][1]) == local:
                lt.add((bi, t["target"]))
    return lt, le


def _add_form(b, op):
    """(root local, constant) if the operand is exactly `root + constant` (through copies and the .0 of AddWithOverflow), else None"""
    if op["k"] not in ("copy", "move"):
        return None
    l = op["pl"]["l"]
    proj = op["pl"].get("p")
    for _ in range(8):
        ds = [d for d in b.defs().get(l, []) if not (d[2] == "assign" and d[3]["lhs"].get("p")) and not b.is_cleanup(d[0])]
        if len(ds) != 1 or ds[0][2] != "assign":
            return None
        rv = ds[0][3]["rv"]
        if rv["k"] == "use" and rv["o"]["k"] in ("copy", "move"):
            l = rv["o"]["pl"]["l"]
            proj = rv["o"]["pl"].get("p")
            continue
        if rv["k"] == "bin" and rv["op"] in ("Add", "AddWithOverflow"):
            x, c = rv["a"], rv["b"]
            if c["k"] != "const":
                x, c = c, x
            if c["k"] == "const" and "int" in c and x["k"] in ("copy", "move"):
                r = _root(b, x)
                if r is None and not x["pl"].get("p"):
                    r = x["pl"]["l"]
                return (r, c["int"]) if r is not None else None
        return None
    return None


def _expr_sig(b, op, at):
    """structure signature of an operand: constants and operators and root names (for comparing `pos + 8` with `pos + 8`)"""
    if op["k"] == "const":
        return ("c", M.const_repr(op))
    o = M.operand_origins(b, op, at=at)
    sig = set()
    for x in o:
        if x[0] == "const":
            sig.add(("c", x[1]))
        elif x[0] == "bin":
            sig.add(("op", x[1][2].replace("WithOverflow", "")))
        elif x[0] == "call":
            sig.add(("call", x[1][1], x[2]))
        elif x[0] in ("arg", "upvar"):
            sig.add((x[0], x[1], x[2]))
    return frozenset(sig)


def _cval(b, op, depth=0):
    """integer value of an operand that is a compile-time constant (a literal, or checked arithmetic over such), else None"""
    if op.get("k") == "const":
        return op.get("int")
    if op.get("k") not in ("copy", "move") or depth > 6:
        return None
    pl = op["pl"]
    proj = M._proj_key(pl.get("p"))
    ds = [d for d in b.defs().get(pl["l"], []) if d[2] == "assign" and not d[3]["lhs"].get("p")]
    if len(ds) != 1 or len(b.defs().get(pl["l"], [])) != 1:
        return None
    rv = ds[0][3]["rv"]
    if rv["k"] == "use" and not proj:
        return _cval(b, rv["o"], depth + 1)
    if rv["k"] == "bin" and (not proj or proj == [".0"]):
        x, y = _cval(b, rv["a"], depth + 1), _cval(b, rv["b"], depth + 1)
        if x is None or y is None:
            return None
        o = rv["op"].replace("WithOverflow", "")
        v = {"Add": x + y, "Sub": x - y, "Mul": x * y}.get(o)
        if v is None and o == "Div" and y != 0:
            v = int(x / y)
        return v if v is not None and -(1 << 63) <= v < (1 << 63) else None
    return None


def _bin_def(b, op):
    """the single `bin` rvalue an operand is defined by (through plain copies and the .0 of a checked op), else None"""
    for _ in range(6):
        if op.get("k") not in ("copy", "move"):
            return None
        ds = b.defs().get(op["pl"]["l"], [])
        if len(ds) != 1 or ds[0][2] != "assign" or ds[0][3]["lhs"].get("p"):
            return None
        rv = ds[0][3]["rv"]
        if rv["k"] == "bin":
            return rv
        if rv["k"] == "use":
            op = rv["o"]
            continue
        return None
    return None


def _discharge(cx, b, k, bi, t):
    """returns a reason string if the panic site at block bi is discharged automatically, else None"""
    at = (bi, M.T)
    if t["k"] == "assert":
        kind = t["akind"]
        ops = t["aops"]
        if kind == "DivisionByZero" or kind.startswith("RemainderByZero"):
            # the assert's operand is the dividend; the divisor is what the condition compares with 0
            d = _bin_def(b, t["cond"]) if t.get("cond") else None
            if d is not None and d["op"] == "Eq":
                for x, z in ((d["a"], d["b"]), (d["b"], d["a"])):
                    if _cval(b, z) == 0:
                        v = _cval(b, x)
                        if v is not None and v != 0:
                            return "divisor is the non-zero constant %d" % v
        if kind in ("Overflow:Div", "Overflow:Rem") and len(ops) == 2:
            v = _cval(b, ops[1])
            if v is not None and v != -1:
                return "divisor is the constant %d, not -1" % v
        if kind.startswith(("Overflow:Mul", "Overflow:Add", "Overflow:Sub")) and len(ops) == 2:
            x, y = _cval(b, ops[0]), _cval(b, ops[1])
            if x is not None and y is not None:
                return "constant arithmetic (%d, %d)" % (x, y)
            if kind.startswith("Overflow:Mul"):
                # (v / c) * c with the same positive constant c: division truncates toward zero, so |(v / c) * c| <= |v|
                for q, c in ((ops[0], ops[1]), (ops[1], ops[0])):
                    cv = _cval(b, c)
                    d = _bin_def(b, q)
                    if cv is not None and cv > 0 and d is not None and d["op"] == "Div" and _cval(b, d["b"]) == cv:
                        return "truncated quotient times its own divisor %d cannot exceed the dividend in magnitude" % cv
        if kind in ("Overflow:Shr", "Overflow:Shl"):
            s = ops[1]
            if s["k"] == "const" and 0 <= s.get("int", 99) < 64:
                return "shift by the constant %s" % s.get("int")
            l = _root(b, s)
            if l is not None:
                lt, le = _guards(b, l)
                defs = [d for d in b.defs().get(l, []) if not b.is_cleanup(d[0])]
                ok = bool(lt)
                for d in defs:
                    if d[2] == "assign" and d[3]["rv"]["k"] == "use" and d[3]["rv"]["o"]["k"] == "const":
                        continue  # constant initialiser
                    # from this (re)definition the site is reachable only through a bounding edge
                    if bi in (b.reachable(d[0], removed_edges=lt) | set()) and d[0] != bi:
                        ok = False
                if ok:
                    return "shift amount is a constant or re-checked against a constant bound on every way back to the shift"
            return None
        if kind.startswith("Overflow:Add") or kind.startswith("Overflow:Sub") or kind.startswith("Overflow:Mul"):
            a, c = ops
            if a["k"] == "const" and c["k"] == "const":
                return "constants"
            if kind.startswith("Overflow:Add") and (c["k"] == "const" or a["k"] == "const"):
                x, cst = (a, c) if c["k"] == "const" else (c, a)
                if not (0 <= cst.get("int", 1 << 40) <= 1 << 16):
                    return None
                l = _root(b, x)
                if l is None:
                    # `pos + 8` where pos is a temp copy: resolve through the operand's own origins
                    l = x["pl"]["l"] if x["k"] in ("copy", "move") and not x["pl"].get("p") else None
                if l is None:
                    return None
                lt, le = _guards(b, l)
                org = M.operand_origins(b, x, at=at)
                wire = [o for o in org if o[0] == "call" and not (o[1][1] in BOUNDED_POS and (BOUNDED_POS[o[1][1]] == "" or M.strip_unwraps(o[2]).endswith(BOUNDED_POS[o[1][1]])))
                        and not o[1][1].endswith("::len")]
                casts = [o for o in org if o[0] == "other" and "as" in str(o[1])]
                if wire:
                    return None
                # every cycle through this addition passes a bounding edge (loop condition / explicit check)
                if (lt | le) and not b.reaches(bi, bi, removed_edges=lt | le):
                    return "operand is a position bounded by the input length (bounded-helper results / loop guard on every iteration) plus a small constant"
                if bi not in b.reach_set(bi) and (lt | le) and b.dominated_by_edges(bi, lt | le):
                    return "operand bounded by a dominating comparison plus a small constant"
                if bi not in b.reach_set(bi) and not [o for o in org if o[0] == "bin"]:
                    return "operand is a bounded-helper result plus a small constant, not in a loop"
            return None
        if kind == "BoundsCheck":
            ln, idx = ops
            if idx["k"] == "const" and ln["k"] == "const" and idx.get("int", 1) < ln.get("int", 0):
                return "constant index into a fixed-size array"
            l = _root(b, idx)
            if l is not None:
                lt, le = _guards(b, l)
                lt = {e for e in lt if e[0] != bi}
                if lt and b.dominated_by_edges(bi, lt):
                    # no redefinition of the index between guard and use: from every (re)definition the access is reachable only through a guard edge
                    if all(bi not in b.reachable(d[0], removed_edges=lt) for d in b.defs().get(l, []) if not b.is_cleanup(d[0]) and d[0] != bi):
                        return "index < length established on every path to the access"
            return None
        return None
    cal = t["callee"]
    if cal in ("std::ops::Index::index", "std::ops::IndexMut::index_mut"):
        ix = t["args"][1]
        if ix["k"] == "const":
            return None
        # Range { start, end } aggregate
        l = _root(b, ix)
        rng = None
        for (dbi, dsi, dk, pay) in b.defs().get(l, []) if l is not None else []:
            if dk == "assign" and pay["rv"]["k"] == "agg" and pay["rv"].get("adt", "").startswith("std::ops::Range"):
                rng = (pay["rv"], dbi, dsi)
        if rng is None:
            return None
        rv, dbi, dsi = rng
        f = dict(zip(rv["fields"], rv["ops"]))
        if "end" not in f:
            return None
        eo = M.operand_origins(b, f["end"], at=(dbi, dsi))
        start_root = _root(b, f["start"]) if "start" in f else None
        # (a) end = field_end(data, <start>, ..)?
        for o in eo:
            if o[0] == "call" and o[1][1] == PROM + "field_end":
                ft = b.term(o[1][0])
                if "start" not in f or _root(b, ft["args"][1]) == start_root or _expr_sig(b, ft["args"][1], (o[1][0], M.T)) == _expr_sig(b, f["start"], (dbi, dsi)):
                    s, fl = M.outcome_edges(b, o[1][0])
                    if s and b.dominated_by_edges(bi, s):
                        return "end comes from field_end(data, start, len) on its success edge: start <= end <= data.len()"
        # (b) explicit guard `start + c' <= len` (c' >= c) with end = start + c, same root, not redefined in between
        af = _add_form(b, f["end"])
        if af is not None and "start" in f and (_root(b, f["start"]) == af[0] or (f["start"]["k"] in ("copy", "move") and f["start"]["pl"]["l"] == af[0])):
            for sw in M.cmp_switches(b):
                for swapped, (x, y) in ((False, (sw["a"], sw["b"])), (True, (sw["b"], sw["a"]))):
                    g = _add_form(b, x)
                    if g is not None and g[0] == af[0] and g[1] >= af[1] and _len_like(b, y, sw["site"]):
                        e = M._IMPLY["le"].get((sw["op"], swapped))
                        if e and b.dominated_by_edges(bi, {sw[e]}):
                            if all(bi not in b.reachable(d[0], removed_edges={sw[e]}) for d in b.defs().get(af[0], []) if not b.is_cleanup(d[0])):
                                return "end = start + %d and start + %d <= len established on every path, start not reassigned in between" % (af[1], g[1])
        return None
    if cal.endswith("::value"):
        ix = t["args"][1]
        if ix["k"] in ("copy", "move"):
            io = M.operand_origins(b, ix, at=at, adapters=M.PURE_ADAPTERS | {"std::iter::Iterator::next"})
            if M.has_call(io, lambda c: c.endswith("::len") or c.endswith("num_rows")) or any(o[0] == "agg" and "Range" in str(o[1][2]) for o in io):
                return "index iterates 0..len of the same array"
        return None
    return None


# reviewed sites: (function regex, site regex) -> (reason, verifier name or None)
REVIEWED = [
    (r"api::ingest::prometheus::parse_sample$", r"Result::<T, E>::unwrap@\[u8; 8\]", "try_into of an 8-byte sub-slice into [u8; 8] cannot fail (the slice is data[pos..pos + 8], guarded above)", "eight_byte_slice"),
    (r"api::ingest::prometheus::convert_prom_to_arrow$", r"Option::<T>::unwrap@", "label_values holds a column for every name in label_names (built from the same set); get_mut / remove by a member cannot miss", "label_column_lookup"),
    (r"api::ingest::flight_ingest::FlightIngestService::process_stream", r"Overflow:Add", "running total of rows actually decoded from the stream; bounded by memory, far below usize::MAX", None),
    (r"ingester::Ingester::compute_shard_id$", r"::value@", "value(0): every caller passes a batch with at least one row (write returns early on an empty batch; flush concatenates accepted, non-empty batches)", "shard_key_callers"),
    (r"ingester::Ingester::compute_shard_id$", r"Index::index@std::vec::Vec<u8>", "to_bytes() of a ShardKey is a fixed layout of at least 8 bytes (tenant id + hashes); [0..8] is in range", None),
]


def _verify(cx, name, b, k, bi, t):
    if name is None:
        return True
    if name == "eight_byte_slice":
        o = M.operand_origins(b, t["args"][0], at=(bi, M.T), adapters=M.PURE_ADAPTERS | {"std::convert::TryInto::try_into"})
        for x in o:
            if x[0] == "call" and b.term(x[1][0])["callee"] == "std::ops::Index::index":
                return _discharge(cx, b, k, x[1][0], b.term(x[1][0])) is not None
        return False
    if name == "label_column_lookup":
        h = cx.hir(PROM + "convert_prom_to_arrow")
        # label_values is built by mapping over label_names
        for st in H.walk(h["tree"]):
            if st.get("k") == "slet" and st["pat"].get("k") == "pbind" and st["pat"]["name"] == "label_values" and st.get("init") is not None:
                if any(H.is_local(x, "label_names") for x in H.walk(st["init"])):
                    return True
        return False
    if name == "shard_key_callers":
        ok = True
        n = 0
        for kk, c in cx.prog.sites(lambda x: x == "ingester::Ingester::compute_shard_id"):
            bb = cx.body(kk)
            n += 1
            if named_parent(kk) == "ingester::Ingester::flush_batches":
                continue  # reviewed: concat of accepted, non-empty batches
            is_rows = lambda o: M.has_call(o, lambda x: x.endswith("num_rows"))
            is_zero = lambda o: any(x[0] == "const" and x[1] == "0" for x in o)
            ne, used = M.edges_implying(bb, "ne", is_rows, is_zero)
            gt, _ = M.edges_implying(bb, "lt", is_zero, is_rows)
            if not ((ne | gt) and bb.dominated_by_edges(c["b"], ne | gt)):
                ok = False
        return ok and n >= 1
    return False


@rule("C17", "R1", "no unguarded panic site on request bytes: every overflow / bounds / shift assert, unwrap / expect, slice index and arrow value(i) in the ingest handlers, the "
      "hand-written protobuf reader, the converters and the synchronous part of Ingester::write is discharged from its guarding comparisons or by a reviewed, re-verified entry")
def r1(cx):
    n = auto = rev = 0
    for k in sorted(cx.prog.calls):
        if not SCOPE_RX.search(k):
            continue
        b = cx.body(k)
        if b is None:
            continue
        for bi, blk in enumerate(b.blocks):
            if blk.get("cleanup"):
                continue
            t = blk["term"]
            ex = t.get("expn") or {}
            if ex.get("m") and not ex.get("ml"):
                continue
            if t["k"] == "assert":
                desc = "%s@%s" % (t["akind"], ",".join(M.op_str(a) if a["k"] == "const" else (b.name_of(a["pl"]["l"]) or "tmp") for a in t["aops"]))
            elif t["k"] == "call" and PANIC_CALL.search(t["callee"]):
                desc = "%s@%s" % (t["callee"].split("::", 2)[-1] if t["callee"].startswith("std::") else t["callee"], (t.get("self_ty") or "")[:40])
            else:
                continue
            n += 1
            why = _discharge(cx, b, k, bi, t)
            if why:
                auto += 1
                cx.passed(k, "panic-site:%s" % desc, [t["sp"]], "discharged: " + why)
                continue
            hit = None
            for (frx, srx, reason, ver) in REVIEWED:
                if re.search(frx, named_parent(k)) and re.search(srx, desc):
                    hit = (reason, ver)
                    break
            if hit and _verify(cx, hit[1], b, k, bi, t):
                rev += 1
                cx.passed(k, "panic-site:%s" % desc, [t["sp"]], "reviewed: " + hit[0])
            elif hit:
                cx.violation(k, "panic-site:%s" % desc, "%s: this site relies on '%s', which no longer holds in the code: a crafted request reaches it and the handler panics" % (t["sp"], hit[0]), [t["sp"]])
            else:
                cx.violation(k, "panic-site:%s" % desc, "%s: %s in %s can panic on request data and nothing the analysis recognises guards it (no bounding comparison on every path, no reviewed entry): "
                             "hostile or truncated input takes the request handler down instead of being answered with an error" % (t["sp"], desc.split("@")[0], named_parent(k)), [t["sp"]])
    cx.note("panic sites: %d total, %d discharged automatically, %d by reviewed entries" % (n, auto, rev))
    cx.floor("panic sites enumerated in the ingest path", n, 25)


def _paths(node, track):
    """multiset of pushes per path through an HIR statement tree: list of dicts name -> [payload kinds]"""
    if not isinstance(node, dict):
        return [{}]
    k = node.get("k")
    if k == "block":
        acc = [{}]
        for st in node["stmts"] + ([node["tail"]] if node.get("tail") is not None else []):
            sub = _paths(st, track)
            new = []
            for a in acc:
                if a.get("__end__"):
                    new.append(a)
                    continue
                for s in sub:
                    m = {x: list(v) for x, v in a.items()}
                    for x, v in s.items():
                        if x == "__end__":
                            m[x] = True
                        else:
                            m.setdefault(x, []).extend(v)
                    new.append(m)
            acc = new
        return acc
    if k == "if":
        out = _paths(node["then"], track)
        out += _paths(node["els"], track) if node.get("els") is not None else [{}]
        pre = _paths(node["cond"], track) if node["cond"].get("k") not in ("let",) else [{}]
        return out
    if k == "mcall" and node["name"] == "push":
        r = H.strip(node["recv"])
        nm = r.get("name") if r.get("k") == "local" else None
        inner = [{}]
        arg = H.strip(node["args"][0]) if node["args"] else {}
        p, a = H.ctor_call(arg)
        kind = "Some" if p and p.endswith("Some") else ("None" if (H.path_of(arg) or "").endswith("None") else "val")
        ends = any(x.get("k") == "try" for x in H.walk(node))
        if nm in track:
            return [{nm: [kind]}] + ([{"__end__": True}] if ends else [])
        return [{}]
    if k in ("for", "loop", "while", "closure"):
        return [{}]
    if k == "ret":
        return [{"__end__": True}]
    if k == "slet":
        return _paths(node.get("init"), track) if node.get("init") is not None else [{}]
    if k == "match":
        out = []
        for arm in node["arms"]:
            out += _paths(arm["body"], track)
        return out or [{}]
    return [{}]


@rule("C17", "R2", "lock-step columns: for every sample the remote-write converter pushes exactly once on each of the five base columns on every path, exactly one of the three value columns "
      "gets Some, and the label loop pushes one value per known label name")
def r2(cx):
    fk = PROM + "convert_prom_to_arrow"
    h = cx.hir(fk)
    track = ["timestamps", "metric_names", "float_values", "int_values", "uint_values"]
    loops = [n for n in H.walk(h["tree"]) if n.get("k") == "for" and any(m.get("k") == "mcall" and m["name"] == "push" and H.is_local(H.strip(m["recv"]), "timestamps") for m in H.walk(n["body"]))
             and not any(x.get("k") == "for" and any(m.get("k") == "mcall" and m["name"] == "push" and H.is_local(H.strip(m["recv"]), "timestamps") for m in H.walk(x["body"])) for x in H.walk(n["body"]) if x is not n["body"])]
    if not cx.floor("per-sample loop in convert_prom_to_arrow", len(loops), 1, fk):
        return
    body = loops[-1]["body"]
    paths = [p for p in _paths(body, track) if not p.get("__end__")]
    bad = []
    for p in paths:
        counts = {c: len(p.get(c, [])) for c in track}
        somes = sum(1 for c in ("float_values", "int_values", "uint_values") for x in p.get(c, []) if x == "Some")
        if any(v != 1 for v in counts.values()) or somes != 1:
            bad.append((counts, somes))
    if paths and not bad:
        cx.passed(fk, "one-push-per-column-per-sample", [loops[-1]["sp"]], "%d paths" % len(paths))
        cx.obligations += len(paths) - 1
        cx.discharged += len(paths) - 1
    else:
        cx.violation(fk, "one-push-per-column-per-sample", "%s: on some path through the per-sample loop the columns are not advanced in lock-step (pushes %s, value columns with Some: %s): "
                     "rows of different series are mixed from there on" % (loops[-1]["sp"], bad[0][0] if bad else "?", bad[0][1] if bad else "?"), [loops[-1]["sp"]])
    inner = [n for n in H.walk(body) if n.get("k") == "for"]
    ok = False
    for n in inner:
        if any(H.is_local(x, "label_names") for x in H.walk(n["iter"])):
            ps = [m for m in H.walk(n["body"]) if m.get("k") == "mcall" and m["name"] == "push"]
            if len(ps) == 1 and any(H.is_local(x, "label_values") for x in H.walk(ps[0]["recv"])):
                ok = True
    if ok:
        cx.passed(fk, "one-label-value-per-column-per-sample", [loops[-1]["sp"]])
    else:
        cx.violation(fk, "one-label-value-per-column-per-sample", "the label loop does not push exactly one value per known label name for every sample", [loops[-1]["sp"]])


@rule("C17", "R3", "units and names: remote-write timestamps are multiplied by 1 000 000 with an overflow check; the metric name is found by scanning ALL labels for __name__; every other "
      "label name of every series gets a column; OTLP timestamps are taken unscaled; OTLP resource labels are computed inside the per-ResourceMetrics iteration")
def r3(cx):
    fk = PROM + "convert_prom_to_arrow"
    h = cx.hir(fk)
    mul = [n for n in H.walk(h["tree"]) if n.get("k") == "mcall" and n["name"] in ("checked_mul", "saturating_mul", "wrapping_mul") and any(x.get("k") == "field" and x["name"] == "timestamp_ms" for x in H.walk(n["recv"]))]
    raw = [n for n in H.walk(h["tree"]) if n.get("k") == "bin" and n["op"] == "*" and any(x.get("k") == "field" and x["name"] == "timestamp_ms" for x in H.walk(n))]
    ok = len(mul) == 1 and mul[0]["name"] == "checked_mul" and H.strip(mul[0]["args"][0]).get("v") == 1_000_000 and not raw
    if ok:
        cx.passed(fk, "ms-to-ns", [mul[0]["sp"]], "checked_mul(1_000_000)")
    else:
        cx.violation(fk, "ms-to-ns", "the sample timestamp is not converted with timestamp_ms.checked_mul(1_000_000) (found %s): wrong unit, or a panic / silent wrap on huge timestamps" % (
            [m["name"] for m in mul] + ["*" for _ in raw]), [m["sp"] for m in mul + raw])
    # metric name by scan
    init = None
    for st in H.walk(h["tree"]):
        if st.get("k") == "slet" and st["pat"].get("k") == "pbind" and st["pat"]["name"] == "metric_name" and st.get("init") is not None:
            init = st["init"]
    if init is None:
        cx.violation(fk, "metric-name-by-scan", "cannot find where the metric name of a series is determined (fail closed)", [])
    else:
        names = [x["name"] for x in H.walk(init) if x.get("k") == "mcall"]
        has_find = any(x.get("k") == "mcall" and x["name"] in ("find", "find_map") and any(l.get("k") == "lit" and l.get("v") == "__name__" for l in H.walk(x)) for x in H.walk(init))
        partial = [n for n in names if n in ("first", "last", "nth", "get", "next", "take", "skip", "peek")]
        if has_find and not partial and "iter" in names:
            cx.passed(fk, "metric-name-by-scan", [])
        else:
            cx.violation(fk, "metric-name-by-scan", "the metric name is not found by scanning all labels of the series for `__name__` (uses %s): a series whose `__name__` label is not where "
                         "the code looks (labels are sorted byte-wise, upper-case names sort before `_`) loses its metric name" % (partial or names[:4]), [])
    # all other labels: the collection loop inserts every name != __name__
    ins = [n for n in H.walk(h["tree"]) if n.get("k") == "mcall" and n["name"] == "insert" and any(H.is_local(x, "label_names") for x in H.walk(n["recv"]))]
    if ins:
        cx.passed(fk, "all-label-names-collected", [ins[0]["sp"]])
    else:
        cx.violation(fk, "all-label-names-collected", "label names are no longer collected into label_names for every series", [])
    # OTLP
    ok_ = "api::ingest::otlp::export_request_to_data_points"
    ho = cx.hir(ok_)
    scaled = []
    n_ts = 0
    for k in [x for x in cx.lib.hir_keys() if x.startswith("api::ingest::otlp::")]:
        hh = cx.hir(k)
        for n in H.walk(hh["tree"]):
            if n.get("k") == "struct" and any(f[0] == "timestamp_nanos" for f in n["fields"]):
                for f in n["fields"]:
                    if f[0] == "timestamp_nanos":
                        n_ts += 1
                        e = f[1]
                        if any(x.get("k") == "bin" and x["op"] in ("*", "/") for x in H.walk(e)) or not any(x.get("k") == "field" and x["name"] == "time_unix_nano" for x in H.walk(e)):
                            scaled.append(n.get("sp"))
    cx.floor("OTLP points built with a timestamp", n_ts, 4, ok_)
    if scaled:
        cx.violation(ok_, "otlp-timestamp-unscaled", "%s: an OTLP data point's timestamp is not time_unix_nano taken as is" % scaled[0], scaled)
    else:
        cx.passed(ok_, "otlp-timestamp-unscaled", [], "%d sites" % n_ts)
    # resource labels per ResourceMetrics: defined inside the outer loop, not carried across iterations
    outer = [n for n in H.walk(ho["tree"]) if n.get("k") == "for" and any(x.get("k") == "field" and x["name"] == "resource_metrics" for x in H.walk(n["iter"]))]
    if not outer:
        cx.violation(ok_, "resource-labels-per-resource", "cannot find the loop over resource_metrics (fail closed)", [])
        return
    o = outer[0]
    lets_inside = [st["pat"]["name"] for st in o["body"].get("stmts", []) if st.get("k") == "slet" and st["pat"].get("k") == "pbind"]
    used = {x["name"] for x in H.walk(o["body"]) if x.get("k") == "local"}
    assigned_inside = {H.strip(a["l"]).get("name") for a in H.walk(o["body"]) if a.get("k") == "assign" and H.strip(a["l"]).get("k") == "local"}
    carried = [a for a in assigned_inside if a and a not in lets_inside and a != "out"]
    res_defined_inside = any(any(x.get("k") == "field" and x["name"] == "resource" for x in H.walk(st.get("init") or {})) for st in o["body"].get("stmts", []) if st.get("k") == "slet")
    if carried or not res_defined_inside:
        cx.violation(ok_, "resource-labels-per-resource", "%s: the resource labels are %s: a ResourceMetrics entry without a resource inherits the labels of an earlier entry in the same export "
                     "(rows of different series are mixed)" % (o["sp"], "assigned to `%s`, which lives across iterations" % carried[0] if carried else "not computed inside the per-resource iteration"), [o["sp"]])
    else:
        cx.passed(ok_, "resource-labels-per-resource", [o["sp"]])


def _collection_loop(cx, fk, set_name_rx, label):
    """the nested key-collection loop around a HashSet insert: every element of the outer collection runs the inner loop to exhaustion, and inside the inner loop the insert is
    skipped only by the reviewed guards (comparison with "__name__", membership in the same set)"""
    b = cx.body(fk)
    if b is None:
        cx.violation(fk, "anchor-missing", "body not found", [])
        return
    ins = [bi for bi, t in b.calls() if t["callee"].endswith("HashSet::<T, S, A>::insert") and "String" in b.locals[t["args"][0]["pl"]["l"]]["ty"]
           and re.search(set_name_rx, " ".join(str(b.name_of(x[1])) if x[0] == "local" else str(x) for x in M.operand_origins(b, t["args"][0], at=(bi, M.T))) + " " + b.locals[t["args"][0]["pl"]["l"]]["ty"])]
    ins = ins[:1] or [bi for bi, t in b.calls() if t["callee"].endswith("HashSet::<T, S, A>::insert")][:1]
    if not cx.floor("label-name inserts in %s" % fk.rsplit("::", 1)[1], len(ins), 1, fk):
        return
    i = ins[0]
    fwd = b.reachable(i)
    scc = {x for x in fwd if i in b.reachable(x)} | {i}
    nexts = [x for x in sorted(scc) if b.term(x)["k"] == "call" and b.term(x)["callee"].endswith("::next")]
    if len(nexts) < 2:
        cx.violation(fk, "%s:every-key-of-every-element" % label, "%s: the label-name collection is no longer a loop over the elements with an inner loop over each element's labels" % b.sp(i), [b.sp(i)])
        return
    inner = [n for n in nexts if b.term(n).get("target") is not None and b.reaches(b.term(n)["target"], n, removed_blocks=set(nexts) - {n})]
    outer = [n for n in nexts if n not in inner]
    if not inner or not outer:
        cx.violation(fk, "%s:every-key-of-every-element" % label, "%s: cannot tell the element loop from the label loop (fail closed)" % b.sp(i), [b.sp(i)])
        return
    inner_none = set()
    for n in inner:
        inner_none |= M.outcome_edges(b, n)[1]
    skipped = []
    for on in outer:
        for (sb, tg) in M.outcome_edges(b, on)[0]:
            if b.reaches(tg, on, removed_edges=inner_none) or tg == on:
                skipped.append(on)
    # guards allowed to skip the insert inside the label loop
    guards = set()
    for sw in M.bool_switches(b):
        r = sw["root"]
        if not (r and r[2] == "call"):
            continue
        c = r[3]["callee"]
        org = set()
        for a in r[3]["args"]:
            org |= M.operand_origins(b, a, at=(r[0], M.T))
        if re.search(r"PartialEq.*::(eq|ne)$", c) and any(x[0] == "const" and "__name__" in str(x[1]) for x in org):
            guards.add(sw["block"])
        if c.endswith("HashSet::<T, S, A>::contains"):
            guards.add(sw["block"])
    leak = []
    for n in inner:
        for (sb, tg) in M.outcome_edges(b, n)[0]:
            if b.reaches(tg, n, removed_blocks={i} | guards):
                leak.append(n)
    if skipped:
        cx.violation(fk, "%s:every-key-of-every-element" % label, "%s: an element can be passed over without its labels being walked to the end (an early `continue` / `break` in the collection "
                     "loop): a label that occurs only on such elements gets no column and is silently dropped from every row" % b.sp(skipped[0]), [b.sp(skipped[0])])
    elif leak:
        cx.violation(fk, "%s:every-key-of-every-element" % label, "%s: inside the label loop the insert can be skipped by a condition other than the `__name__` test / set membership" % b.sp(leak[0]), [b.sp(leak[0])])
    else:
        cx.passed(fk, "%s:every-key-of-every-element" % label, [b.sp(i)])


@rule("C17", "R4", "every label becomes a column: the label-name collection of both converters walks every label of every series / data point (no element is skipped, the label loop ends only "
      "when the labels run out, the insert is guarded by nothing but the `__name__` test or set membership); and the remote-write handler parses exactly the bytes THIS request "
      "decompressed to - a fresh decompress_vec result, not a buffer that outlives the request")
def r4(cx):
    _collection_loop(cx, PROM + "convert_prom_to_arrow", r"label_names", "remote-write")
    _collection_loop(cx, "api::ingest::otlp::data_points_to_arrow", r"label_keys", "otlp")
    # parse_write_request(<decompress_vec(body)>)
    n = 0
    for k, c in cx.prog.sites(lambda c: c == PROM + "parse_write_request"):
        b = cx.body(k)
        if b is None:
            continue
        for bi, t in b.calls():
            if t["callee"] != PROM + "parse_write_request" or t.get("sp") != c["sp"]:
                continue
            n += 1
            o = M.operand_origins(b, t["args"][0], at=(bi, M.T))
            calls = {x[1][1] for x in o if x[0] == "call"}
            fresh = any(re.search(r"snap::raw::Decoder::decompress_vec$", x) for x in calls)
            foreign = sorted(x for x in calls if not re.search(r"decompress_vec$", x))
            shared = [x for x in o if x[0] in ("upvar", "arg", "const", "static") and not (x[0] == "arg" and False)]
            if fresh and not foreign:
                cx.passed(k, "parses-this-requests-bytes", [b.sp(bi)])
            else:
                cx.violation(k, "parses-this-requests-bytes", "%s: the protobuf reader is not handed the fresh result of decompress_vec(body) (it reads %s): a protobuf message has no terminator, so "
                             "bytes left in a reused buffer by an earlier, larger request are parsed as further series of this one" % (b.sp(bi), foreign or "a buffer that is not this request's decompression"), [b.sp(bi)])
    cx.floor("parse_write_request call sites", n, 1)


ML = "api::ingest::otlp::merge_labels"


@rule("C17", "R5", "a data point's own attributes win over its resource's: merge_labels starts from a copy of its FIRST map and inserts every entry of its SECOND map over it (never the other "
      "way round, whatever the sizes), and every caller passes the resource labels first and the point's attributes second")
def r5(cx):
    b = cx.body(ML)
    if b is None:
        cx.violation(ML, "anchor-missing", "body not found", [])
        return
    ins = [bi for bi, t in b.calls() if t["callee"].endswith("HashMap::<K, V, S, A>::insert") or t["callee"].endswith("HashMap::<K, V, S>::insert")]
    clones = [bi for bi, t in b.calls() if t["callee"] == "std::clone::Clone::clone" and "HashMap" in (t.get("self_ty") or "") + b.locals[t["dest"]["l"]]["ty"]]
    if not (cx.floor("inserts in merge_labels", len(ins), 1, ML) and cx.floor("map copies in merge_labels", len(clones), 1, ML)):
        return
    base = set()
    for c in clones:
        base |= {x[1] for x in M.operand_origins(b, b.term(c)["args"][0], at=(c, M.T), adapters=frozenset()) if x[0] == "arg"}
    over = set()
    for i in ins:
        for a in b.term(i)["args"][1:]:
            over |= {x[1] for x in M.operand_origins(b, a, at=(i, M.T)) if x[0] == "arg"}
    if base == {1} and over == {2}:
        cx.passed(ML, "second-map-overrides-first", [b.sp(ins[0])])
    else:
        cx.violation(ML, "second-map-overrides-first", "%s: merge_labels no longer copies its first map and lays its second over it (copy of parameter(s) %s, inserts from %s): on a key present "
                     "in both, which value survives now depends on something else (e.g. the map sizes), and a point can end up with its resource's value" % (b.sp(ins[0]), sorted(base), sorted(over)), [b.sp(ins[0])])
    n = 0
    for k, c in cx.prog.sites(lambda c: c == ML):
        bb = cx.body(k)
        if bb is None:
            continue
        for bi, t in bb.calls():
            if t["callee"] != ML or t.get("sp") != c["sp"]:
                continue
            n += 1
            o0 = M.operand_origins(bb, t["args"][0], at=(bi, M.T))
            o1 = M.operand_origins(bb, t["args"][1], at=(bi, M.T))
            nm = lambda x: (str(bb.name_of(x[1]) or x[1]) if x[0] == "arg" and isinstance(x[1], int) else str(x[1])) + x[2]
            res0 = any("resource" in nm(x).lower() for x in o0 if x[0] in ("arg", "upvar", "call"))
            pt1 = any(".attributes" in x[2] or "attributes" in str(x[1]) for x in o1 if x[0] in ("arg", "upvar", "call")) or M.has_call(o1, lambda cc: cc.endswith("key_values_to_labels"))
            res1 = any("resource" in nm(x).lower() for x in o1 if x[0] in ("arg", "upvar"))
            if res0 and pt1 and not res1:
                cx.passed(k, "resource-first-point-second", [c["sp"]])
            else:
                cx.violation(k, "resource-first-point-second", "%s: merge_labels is not called as (resource labels, point attributes)" % c["sp"], [c["sp"]])
    cx.floor("merge_labels call sites", n, 4)
