"""C18 Live-tail delivery matches the subscription's filter.
Decided: how the WHERE clause becomes predicates (only AND operands are flattened into the conjunction, OR becomes one
tree and needs both sides), the operator tables (mirror for reversed operands, identity, predicate -> comparison for
three value types), the merge-point cut, the mask algebra of And / Or / Not, the topic filter's arms and gate, and that
every consumer of the ingester broadcast forwards only QueryFilter::apply's output.
Known finding: a failed column down-cast leaves the mask untouched (rows pass)."""
import re

from engine import hir as H
from engine import mir as M
from engine.core import rule
from engine.program import named_parent

QF = "query::streaming::QueryFilter::"
CMPS = {"Eq": "==", "NotEq": "!=", "Lt": "<", "LtEq": "<=", "Gt": ">", "GtEq": ">="}
MIRROR = {"Lt": "Gt", "LtEq": "GtEq", "Gt": "Lt", "GtEq": "LtEq"}


def _last(p):
    return (p or "").rsplit("::", 1)[-1]


@rule("C18", "R1", "a disjunction is not flattened: extract_predicates_from_expr passes the shared conjunctive list to itself only under AND (and through parentheses); "
      "expr_to_predicate builds And / Or from BOTH converted sides or yields nothing")
def r1(cx):
    fk = QF + "extract_predicates_from_expr"
    h = cx.hir(fk)
    plist = h["params"][1].get("name")
    n = 0
    for m in H.walk(h["tree"]):
        if m.get("k") != "match" or "BinaryOperator" not in (m.get("sty") or ""):
            continue
        for arm in m["arms"]:
            rec = [c for c in H.walk(arm["body"]) if c.get("k") == "call" and H.path_of(c["f"]) == fk and any(H.is_local(H.strip(a), plist) for a in c["args"])]
            if not rec:
                continue
            n += 1
            vs = {_last(H.pat_path(a)) for a in H.pat_alts(arm["pat"])}
            if vs <= {"And"}:
                cx.passed(fk, "flatten-only-under-and", [arm["sp"]], sorted(vs))
            else:
                cx.violation(fk, "flatten-only-under-and", "%s: the operands of %s are appended one by one to the conjunctive predicate list: `a OR b` is applied as `a AND b` and matching rows "
                             "are withheld from the subscriber" % (arm["sp"], sorted(vs - {"And"})), [arm["sp"]])
    for i in H.walk(h["tree"]):
        if i.get("k") != "if":
            continue
        c = H.strip(i["cond"])
        if c.get("k") != "match" or "BinaryOperator" not in (c.get("sty") or ""):
            continue
        rec = [x for x in H.walk(i["then"]) if x.get("k") == "call" and H.path_of(x["f"]) == fk and any(H.is_local(H.strip(a), plist) for a in x["args"])]
        if not rec:
            continue
        n += 1
        vs = set()
        for arm in c["arms"]:
            body = H.strip(arm["body"])
            if body.get("k") == "lit" and body.get("v") is True:
                vs |= {_last(H.pat_path(a)) if H.pat_path(a) else "_" for a in H.pat_alts(arm["pat"])}
        if vs <= {"And"}:
            cx.passed(fk, "flatten-only-under-and", [i["sp"]], sorted(vs))
        else:
            cx.violation(fk, "flatten-only-under-and", "%s: the operands of %s are appended one by one to the conjunctive predicate list: `a OR b` is applied as `a AND b` and matching rows "
                         "are withheld from the subscriber" % (i["sp"], sorted(vs - {"And"})), [i["sp"]])
    cx.floor("arms that recurse with the shared list", n, 1, fk)
    ek = QF + "expr_to_predicate"
    he = cx.hir(ek)
    seen = set()
    for m in H.walk(he["tree"]):
        if m.get("k") != "match" or "BinaryOperator" not in (m.get("sty") or ""):
            continue
        for arm in m["arms"]:
            for alt in H.pat_alts(arm["pat"]):
                v = _last(H.pat_path(alt))
                if v not in ("And", "Or"):
                    continue
                seen.add(v)
                t = H.tail(arm["body"]) if arm["body"].get("k") == "block" else arm["body"]
                p, args = H.ctor_call(t)
                ip, iargs = H.ctor_call(args[0]) if p and p.endswith("Some") and args else (None, None)
                tries = [x for x in H.walk(t) if x.get("k") == "try" and any(c.get("k") == "call" and H.path_of(c["f"]) == ek for c in H.walk(x["e"]))]
                if ip and _last(ip) == v and len(tries) >= 2:
                    cx.passed(ek, "tree:%s" % v, [arm["sp"]])
                else:
                    cx.violation(ek, "tree:%s" % v, "%s: `%s` is not converted to ColumnPredicate::%s of both converted sides (built %s with %d `?`-propagated conversions): a side that cannot be "
                                 "expressed must make the whole disjunction inexpressible" % (arm["sp"], v.upper(), v, _last(ip) if ip else "something else", len(tries)), [arm["sp"]])
    cx.floor("And / Or arms of expr_to_predicate", len(seen), 2, ek)


def _op_table(h, sty_sub):
    out = {}
    for m in H.walk(h["tree"]):
        if m.get("k") != "match" or sty_sub not in (m.get("sty") or ""):
            continue
        for arm in m["arms"]:
            for alt in H.pat_alts(arm["pat"]):
                v = _last(H.pat_path(alt)) if H.pat_path(alt) else "_"
                t = H.tail(arm["body"]) if arm["body"].get("k") == "block" else arm["body"]
                p, args = H.ctor_call(t)
                if p and p.endswith("Some") and args:
                    ip, _ = H.ctor_call(args[0])
                    tgt = _last(ip) if ip else _last(H.path_of(H.strip(args[0])) or "?")
                    if H.strip(args[0]).get("k") == "mcall" and H.strip(args[0])["name"] == "clone":
                        tgt = "same"
                else:
                    tgt = _last(H.path_of(H.strip(t)) or "?") if t else "?"
                out.setdefault(v, (tgt, arm["sp"]))
    return out


@rule("C18", "R9", "one leaf converter: the flattening builder and the OR-tree builder turn a comparison into a predicate through the same routine, try_extract_comparison (column-first "
      "and, mirrored, literal-first); the column-first-only helper try_column_op_value is called from nowhere else - a builder that uses it directly cannot express `5 < x`, the "
      "disjunction containing it is dropped as inexpressible and every row is delivered")
def r9(cx):
    tcv = QF + "try_column_op_value"
    tec = QF + "try_extract_comparison"
    n = 0
    for k, c in cx.prog.sites(lambda c: c == tcv):
        p = named_parent(k)
        n += 1
        if p == tec:
            cx.passed(p, "column-first-helper-only-inside-the-leaf-converter", [c["sp"]])
        else:
            cx.violation(p, "leaf-conversion-bypasses-mirroring:%s" % p.rsplit("::", 1)[1], "%s: %s converts a comparison with the column-first-only helper: a literal-first comparison (`90.0 < value`) is "
                         "not recognised there, although the other builder recognises it" % (c["sp"], p.rsplit("::", 1)[1]), [c["sp"]])
    cx.floor("calls of try_column_op_value", n, 2)
    users = {named_parent(k) for k, c in cx.prog.sites(lambda c: c == tec)}
    want = {QF + "extract_predicates_from_expr", QF + "expr_to_predicate"}
    if want <= users:
        cx.passed(tec, "both-builders-use-the-leaf-converter", [], sorted(u.rsplit("::", 1)[1] for u in users))
    else:
        cx.violation(tec, "both-builders-use-the-leaf-converter", "%s no longer convert(s) leaves through try_extract_comparison" % sorted(u.rsplit("::", 1)[1] for u in want - users), [])


@rule("C18", "R2", "operator tables: reversed operands use the mirrored operator; column-op-value maps each SQL comparison to the predicate of the same name; apply_comparison evaluates "
      "predicate X as `row X literal` for strings, integers and floats; the merge-point cut clears a row only where ts < merge point")
def r2(cx):
    tk = QF + "try_extract_comparison"
    tab = _op_table(cx.hir(tk), "BinaryOperator")
    bad = {k: tab.get(k, ("?", ""))[0] for k, v in MIRROR.items() if tab.get(k, ("?", ""))[0] != v}
    if not bad and len([k for k in MIRROR if k in tab]) == 4:
        cx.passed(tk, "mirror-table", [tab["Lt"][1]], {k: tab[k][0] for k in MIRROR})
    else:
        cx.violation(tk, "mirror-table", "%s: for `literal OP column` the operator is not mirrored correctly (%s): e.g. `5 < x` is applied as `x < 5`" % (tab.get("Lt", ("", "?"))[1], bad), [v[1] for v in tab.values()][:2])
    ck = QF + "try_column_op_value"
    tab = _op_table(cx.hir(ck), "BinaryOperator")
    bad = {k: tab.get(k, ("?", ""))[0] for k in CMPS if tab.get(k, ("?", ""))[0] != k}
    if not bad:
        cx.passed(ck, "identity-table", [tab["Eq"][1]])
    else:
        cx.violation(ck, "identity-table", "a SQL comparison is converted to a predicate of another name: %s" % bad, [tab[k][1] for k in bad if k in tab])
    ak = QF + "apply_comparison"
    h = cx.hir(ak)
    n_types = 0
    for m in H.walk(h["tree"]):
        if m.get("k") != "match" or m["scrut"].get("k") != "tup":
            continue
        got = {}
        for arm in m["arms"]:
            for alt in H.pat_alts(arm["pat"]):
                if alt.get("k") != "ptuple":
                    continue
                v = _last(H.pat_path(alt["subs"][0])) if H.pat_path(alt["subs"][0]) else None
                if v not in CMPS:
                    continue
                body = H.strip(H.tail(arm["body"]) if arm["body"].get("k") == "block" else arm["body"])
                if body.get("k") != "bin":
                    got[v] = ("?", arm["sp"])
                    continue
                op = body["op"]
                lit_left = any(H.is_local(x, "expected") for x in H.walk(body["a"]))
                lit_right = any(H.is_local(x, "expected") for x in H.walk(body["b"]))
                eps = any((H.path_of(x) or "").endswith("EPSILON") for x in H.walk(body))
                if eps:
                    # |v - expected| < EPSILON  == equality ; >= EPSILON == inequality
                    op = "==" if op == "<" else ("!=" if op == ">=" else "?")
                elif lit_left and not lit_right:
                    op = H.FLIP.get(op, op)
                got[v] = (op, arm["sp"])
        if len(got) >= 6:
            n_types += 1
            bad = {k: got[k][0] for k in CMPS if got.get(k, ("?",))[0] != CMPS[k]}
            ty = "float" if any("EPSILON" in str(x) for x in H.walk(m)) else ("string" if any(x.get("k") == "mcall" and x["name"] == "as_str" for x in H.walk(m)) else "integer")
            if not bad:
                cx.passed(ak, "comparison-table:%s" % ty, [m["sp"]])
            else:
                cx.violation(ak, "comparison-table:%s" % ty, "%s: for %s columns a predicate is evaluated with the wrong comparison %s (predicate: operator used as `row OP literal`)" % (m["sp"], ty, bad), [got[k][1] for k in bad])
    cx.floor("value types with a full comparison table", n_types, 3, ak)
    # merge point
    pk = QF + "apply"
    b = cx.body(pk)
    if b is None:
        cx.violation(pk, "anchor-missing", "body not found", [])
        return
    is_merge = lambda o: any(x[0] == "arg" and x[1] == 3 for x in o)
    is_ts = lambda o: M.has_call(o, lambda c: c.endswith("::iter") or c == "std::iter::Iterator::next" or c.endswith("::value")) and not is_merge(o)
    lt, used = M.edges_implying(b, "lt", is_ts, is_merge)
    clears = []
    for bi, blk in enumerate(b.blocks):
        if blk.get("cleanup"):
            continue
        for si, st in enumerate(blk["stmts"]):
            if st["lhs"].get("p") and st["rv"]["k"] == "use" and st["rv"]["o"]["k"] == "const" and st["rv"]["o"].get("int") == 0 and b.locals[st["lhs"]["l"]]["ty"] in ("&mut bool", "bool") or \
               (st["lhs"].get("p") and st["rv"]["k"] == "use" and st["rv"]["o"]["k"] == "const" and st["rv"]["o"].get("val") == "false"):
                clears.append((bi, si))
    if not cx.floor("comparisons of a row timestamp with the merge point", len(used), 2, pk):
        return
    if clears and all(b.dominated_by_edges(c[0], lt) for c in clears):
        cx.passed(pk, "merge-point-cut", [b.sp(c[0], c[1]) for c in clears], "cleared only where ts < merge point")
    else:
        cx.violation(pk, "merge-point-cut", "%s: apply clears a row without ts < merge point being established: rows at the merge point are withheld (or older ones delivered twice)" % (
            b.sp(clears[0][0], clears[0][1]) if clears else "?"), [b.sp(c[0], c[1]) for c in clears])


@rule("C18", "R6", "mask algebra: And narrows the same mask twice; Or evaluates both sides on copies of the incoming mask and stores their disjunction; Not only clears rows that are still set")
def r6(cx):
    fk = QF + "apply_predicate_to_mask"
    h = cx.hir(fk)
    mname = h["params"][2].get("name")
    t = H.tail(h["tree"]) if h["tree"].get("k") == "block" else h["tree"]
    arms = {}
    if t is not None and t.get("k") == "match":
        for arm in t["arms"]:
            for alt in H.pat_alts(arm["pat"]):
                arms[_last(H.pat_path(alt))] = arm
    for v in ("And", "Or", "Not"):
        if v not in arms:
            cx.violation(fk, "mask:%s" % v, "no arm for ColumnPredicate::%s" % v, [])
    if "And" in arms:
        rec = [c for c in H.walk(arms["And"]["body"]) if c.get("k") == "call" and H.path_of(c["f"]) == fk]
        same = [c for c in rec if H.is_local(H.strip(c["args"][2]), mname)]
        if len(rec) == 2 and len(same) == 2:
            cx.passed(fk, "mask:And", [arms["And"]["sp"]])
        else:
            cx.violation(fk, "mask:And", "%s: And does not apply both sides to the incoming mask" % arms["And"]["sp"], [arms["And"]["sp"]])
    if "Or" in arms:
        body = arms["Or"]["body"]
        lets = {}
        for st in body.get("stmts", []):
            if st.get("k") == "slet" and st["pat"].get("k") == "pbind" and st.get("init") is not None:
                lets[st["pat"]["name"]] = st["init"]
        rec = [c for c in H.walk(body) if c.get("k") == "call" and H.path_of(c["f"]) == fk]
        subs = []
        for c in rec:
            a = H.strip(c["args"][2])
            subs.append(a.get("name") if a.get("k") == "local" else None)
        probs = []
        if len(rec) != 2 or None in subs or len(set(subs)) != 2:
            probs.append("the two sides are not evaluated on two separate sub-masks")
        for s in subs:
            init = lets.get(s)
            if init is None:
                probs.append("sub-mask %s is not a fresh copy" % s)
                continue
            i0 = init
            ok = i0.get("k") == "mcall" and i0["name"] in ("to_vec", "clone", "to_owned") and H.is_local(H.strip(i0["recv"]), mname)
            if not ok:
                probs.append("sub-mask `%s` is not initialised as a copy of the incoming mask (it is %s): rows already excluded by the merge-point cut or an earlier conjunct can be switched back on" % (
                    s, "derived from the other side" if any(H.is_local(x, o) for o in subs if o != s for x in H.walk(init)) else "something else"))
        assigns = [a for a in H.walk(body) if a.get("k") == "assign" and any(H.is_local(x, mname) for x in H.walk(a["l"]))]
        good_store = False
        for a in assigns:
            r = H.strip(a["r"])
            if r.get("k") == "bin" and r["op"] == "||" and {x.get("name") for x in H.walk(r) if x.get("k") == "local"} >= set(s for s in subs if s):
                good_store = True
        if not good_store:
            probs.append("the result is not stored as left || right")
        if probs:
            cx.violation(fk, "mask:Or", "%s: %s" % (arms["Or"]["sp"], "; ".join(probs)), [arms["Or"]["sp"]])
        else:
            cx.passed(fk, "mask:Or", [arms["Or"]["sp"]])
    if "Not" in arms:
        body = arms["Not"]["body"]
        guarded = False
        for i in H.walk(body):
            if i.get("k") == "if" and any(H.is_local(x, mname) for x in H.walk(i["cond"])):
                for a in H.walk(i["then"]):
                    if a.get("k") == "assign" and H.strip(a["r"]).get("k") == "un" and H.strip(a["r"])["op"] == "!":
                        guarded = True
        if guarded:
            cx.passed(fk, "mask:Not", [arms["Not"]["sp"]])
        else:
            cx.violation(fk, "mask:Not", "%s: Not does not store !inner only for rows that are still set" % arms["Not"]["sp"], [arms["Not"]["sp"]])


TF = "ingester::topic_broadcast::TopicFilter::matches"


@rule("C18", "R3", "topic filter: All -> true; Shard / Tenant -> equality with the batch's shard / tenant; Metrics -> some listed name is contained in the batch's metrics; And -> all; Or -> any; "
      "a filtered receiver hands out a batch only on the true edge of matches")
def r3(cx):
    h = cx.hir(TF)
    t = H.tail(h["tree"]) if h["tree"].get("k") == "block" else h["tree"]
    if t is None or t.get("k") != "match":
        cx.violation(TF, "arms", "TopicFilter::matches is no longer a single match", [h["span"]])
        return
    seen = set()
    for arm in t["arms"]:
        for alt in H.pat_alts(arm["pat"]):
            v = _last(H.pat_path(alt))
            seen.add(v)
            body = H.strip(H.tail(arm["body"]) if arm["body"].get("k") == "block" else arm["body"])
            ok = False
            why = ""
            if v == "All":
                ok = body.get("k") == "lit" and body.get("v") is True
            elif v in ("Shard", "Tenant"):
                fld = "shard_id" if v == "Shard" else "tenant_id"
                ok = body.get("k") == "bin" and body["op"] == "==" and any(x.get("k") == "field" and x["name"] == fld for x in H.walk(body))
                why = "must compare with metadata.%s by ==" % fld
            elif v == "Metrics":
                anys = [x for x in H.walk(body) if x.get("k") == "mcall" and x["name"] == "any"]
                cont = [x for x in H.walk(body) if x.get("k") == "mcall" and x["name"] == "contains"]
                other = [x["name"] for x in H.walk(body) if x.get("k") == "mcall" and x["name"] in ("binary_search", "binary_search_by", "starts_with", "ends_with", "eq_ignore_ascii_case", "all", "first", "last")]
                ok = bool(anys) and bool(cont) and not other
                why = "must be any(listed name contained in metadata.metrics); found %s" % (other or "no any/contains")
            elif v in ("And", "Or"):
                want = "all" if v == "And" else "any"
                ok = any(x.get("k") == "mcall" and x["name"] == want for x in H.walk(body)) and any(x.get("k") == "mcall" and x.get("def") == TF for x in H.walk(body)) \
                    or (body.get("k") == "bin" and body["op"] == ("&&" if v == "And" else "||"))
                why = "must be %s over the sub-filters" % want
            else:
                why = "unknown variant"
            if ok:
                cx.passed(TF, "arm:%s" % v, [arm["sp"]])
            else:
                cx.violation(TF, "arm:%s" % v, "%s: the %s arm of TopicFilter::matches is not its reference meaning (%s): a subscriber misses batches it asked for, or receives others" % (arm["sp"], v, why), [arm["sp"]])
    adt = cx.lib.adts.get("ingester::topic_broadcast::TopicFilter")
    for vn in [x["name"] for x in (adt["variants"] if adt else [])]:
        if vn not in seen:
            cx.violation(TF, "arm:%s" % vn, "TopicFilter::%s has no explicit arm" % vn, [])
    rk = "ingester::topic_broadcast::FilteredReceiver::recv"
    ck, b = cx.code_body(rk)
    if b is None:
        cx.violation(rk, "anchor-missing", "body not found", [])
        return
    te = set()
    for sw in M.bool_switches(b):
        r = sw["root"]
        if r and r[2] == "call" and r[3]["callee"] == TF:
            te.add(sw["true_edge"])
    oks = []
    for (bi, si, cls) in M.exit_defs(b):
        if cls == "ok" and si != M.T:
            oks.append((bi, si))
    if te and oks and all(b.dominated_by_edges(o[0], te) for o in oks):
        cx.passed(ck, "recv-gated-by-matches", [b.sp(o[0], o[1]) for o in oks])
    else:
        cx.violation(ck, "recv-gated-by-matches", "a filtered receiver can hand out a batch that its topic filter did not accept", [b.sp(o[0], o[1]) for o in oks])


SEL = M.PURE_ADAPTERS | {"std::future::poll_fn", "api::query::streaming::batch_to_json", "api::query::streaming::batches_to_json", "serde_json::to_string", "std::result::Result::<T, E>::unwrap",
                         "axum::extract::ws::Message::Text", "std::convert::Into::into"}


@rule("C18", "R4", "every live consumer filters: a batch taken from the ingester broadcast reaches a client only as the output of QueryFilter::apply")
def r4(cx):
    n = 0
    for k in cx.prog.fn_keys(r"^(query::streaming::|api::query::streaming::|<api::query::|query::QueryNode::)"):
        b = cx.body(k)
        if b is None:
            continue
        recvs = [bi for bi, t in b.calls() if t["callee"].endswith("broadcast::Receiver::<T>::recv") and "RecordBatch" in (t.get("self_ty") or "") + b.locals[t["dest"]["l"]]["ty"]
                 or t["callee"] == "ingester::topic_broadcast::FilteredReceiver::recv"]
        if not recvs:
            continue
        sends = [bi for bi, t in b.calls() if re.search(r"mpsc::(bounded::)?Sender::<T>::send$|SplitSink.*::send$|SinkExt::send$|WebSocket::send$", t["callee"])]
        for s in sends:
            n += 1
            org = set()
            for a in b.term(s)["args"][1:]:
                org |= M.operand_origins(b, a, at=(s, M.T), adapters=SEL)
            from_recv = any(x[0] == "call" and x[1][0] in recvs for x in org)
            from_apply = M.has_call(org, lambda c: c == QF + "apply")
            deep = set()
            for a in b.term(s)["args"][1:]:
                deep |= M.operand_origins(b, a, at=(s, M.T), adapters=SEL | {QF + "apply"})
            touches = any(x[0] == "call" and x[1][0] in recvs for x in deep)
            if not touches:
                continue
            if from_apply and not from_recv:
                cx.passed(k, "forwards-only-filtered", [b.sp(s)])
            else:
                cx.violation(k, "forwards-only-filtered", "%s: %s forwards a broadcast batch to the client without passing it through QueryFilter::apply: the subscriber receives rows that do not "
                             "satisfy its WHERE clause (and rows older than the merge point)" % (b.sp(s), named_parent(k)), [b.sp(s)])
    cx.floor("client sends fed by the broadcast", n, 2)


@rule("C18", "R5", "no silent pass-through: when a column cannot be read as the literal's type, apply_comparison must clear or reject, not leave the mask untouched")
def r5(cx):
    ak = QF + "apply_comparison"
    b = cx.body(ak)
    if b is None:
        cx.violation(ak, "anchor-missing", "body not found", [])
        return
    casts = [bi for bi, t in b.calls() if re.search(r"AsArray::as_(string|primitive|boolean)_opt$", t["callee"])]
    cx.floor("column down-casts in apply_comparison", len(casts), 3, ak)
    stores = set()
    for bi, blk in enumerate(b.blocks):
        if blk.get("cleanup"):
            continue
        for st in blk["stmts"]:
            if st["lhs"].get("p") and ("bool" in b.locals[st["lhs"]["l"]]["ty"]) and st["lhs"]["l"] != 0:
                stores.add(bi)
    bad = []
    for c in casts:
        s, f = M.outcome_edges(b, c)
        for e in f:
            reach = b.reachable(e[1]) | {e[1]}
            if not (reach & stores):
                bad.append(c)
    if bad:
        cx.violation(ak, "type-mismatch-passes-rows", "%s: when the column is not of the literal's type (e.g. an integer literal against a float column) the mask is left untouched: the predicate "
                     "is ignored and every row is delivered" % b.sp(bad[0]), [b.sp(x) for x in sorted(set(bad))])
    else:
        cx.passed(ak, "type-mismatch-passes-rows", [b.sp(c) for c in casts])


EXEC_S = "query::streaming::StreamingQueryExecutor::execute"


@rule("C18", "R7", "no gap between the historical and the live phase: the receiver the spawned live-tail task reads from is the subscription the executor was constructed with (opened "
      "before the chunk list was taken) - not a fresh subscribe / resubscribe made after the historical scan, which starts at the channel head and skips what was flushed meanwhile")
def r7(cx):
    ck = cx.prog.code_key(EXEC_S)
    b = cx.body(ck)
    if b is None:
        cx.violation(EXEC_S, "anchor-missing", "body not found", [])
        return
    tasks = [(bi, si, st) for (bi, si, st) in M.aggregates(b, lambda rv: rv.get("ak") in ("closure", "coroutine")) if "receiver" in (st["rv"].get("fields") or [])
             or any(re.search(r"StreamReceiver|broadcast::Receiver|FilteredReceiver", b.locals[o["pl"]["l"]]["ty"]) for o in st["rv"]["ops"] if o.get("k") in ("move", "copy"))]
    if not cx.floor("live-tail tasks capturing the receiver", len(tasks), 1, ck):
        return
    for (bi, si, st) in tasks:
        rv = st["rv"]
        idx = [i for i, o in enumerate(rv["ops"]) if o.get("k") in ("move", "copy") and re.search(r"StreamReceiver|broadcast::Receiver|FilteredReceiver", b.locals[o["pl"]["l"]]["ty"])]
        for i in idx:
            o = M.operand_origins(b, rv["ops"][i], at=(bi, si))
            calls = sorted({x[1][1] for x in o if x[0] == "call"})
            if M.has_field(o, None, ".receiver") and not calls:
                cx.passed(EXEC_S, "live-tail-reads-the-original-subscription", [b.sp(bi, si)])
            else:
                cx.violation(EXEC_S, "live-tail-reads-the-original-subscription", "%s: the live tail reads from a receiver produced by %s after the historical scan, not from the subscription opened "
                             "before it: a batch flushed while the scan ran is in neither phase" % (b.sp(bi, si), calls or "something else"), [b.sp(bi, si)])
        # inside the task every recv is on the captured receiver
        for k2 in cx.prog.sub_bodies(rv["def"]):
            tb = cx.body(k2)
            if tb is None:
                continue
            for ri, t in tb.calls():
                if t["callee"].endswith("broadcast::Receiver::<T>::recv") or t["callee"] == "ingester::topic_broadcast::FilteredReceiver::recv":
                    ro = M.operand_origins(tb, t["args"][0], at=(ri, M.T))
                    calls = sorted({x[1][1] for x in ro if x[0] == "call"})
                    if any(x[0] == "upvar" and "receiver" in str(x[1]) for x in ro) and not calls:
                        cx.passed(k2, "recv-on-captured-receiver", [tb.sp(ri)])
                    else:
                        cx.violation(k2, "recv-on-captured-receiver", "%s: the live loop receives from %s instead of the captured subscription" % (tb.sp(ri), calls or "another receiver"), [tb.sp(ri)])


EXM = "ingester::Ingester::extract_metrics"


@rule("C18", "R8", "topic derivation sees every row: in Ingester::extract_metrics the walk over the metric_name column runs from 0 to the column's length (or over its iterator), is left only "
      "when that walk is exhausted, and a NULL name skips one row, not the rest - a name missing from the published topic set hides the whole batch from its subscribers")
def r8(cx):
    ck, b = cx.need_body(EXM)
    if b is None:
        return
    ins = [bi for bi, t in b.calls() if t["callee"].endswith("HashSet::<T, S, A>::insert") or t["callee"].endswith("BTreeSet::<T, A>::insert")]
    if not cx.floor("set inserts in extract_metrics", len(ins), 1, ck):
        return
    for i in ins:
        fwd = b.reachable(i)
        if i not in fwd:
            cx.violation(ck, "walks-every-row", "%s: the insert of a metric name is not inside a loop" % b.sp(i), [b.sp(i)])
            continue
        scc = {x for x in fwd if i in b.reachable(x)} | {i}
        nexts = [x for x in scc if b.term(x)["k"] == "call" and b.term(x)["callee"].endswith("::next")]
        none_edges = set()
        for n in nexts:
            none_edges |= M.outcome_edges(b, n)[1]
        exits = set()
        for u in scc:
            if b.is_cleanup(u):
                continue
            for v in b.succs(u):
                if v not in scc and not b.is_cleanup(v) and b.term(v)["k"] not in ("unreachable",):
                    exits.add((u, v))
        early = sorted(exits - none_edges)
        # the walk: a Range 0..len(column) or the column's own iterator
        full = False
        for n in nexts:
            callee = " ".join(str(b.term(n).get(f) or "") for f in ("callee", "resolved", "self_ty", "cargs"))
            if "ops::Range<" in callee:
                for (bi, si, st) in M.aggregates(b, lambda rv: rv.get("adt", "").endswith("ops::Range")):
                    ops = st["rv"]["ops"]
                    lo = M.operand_origins(b, ops[0], at=(bi, si))
                    hi = M.operand_origins(b, ops[1], at=(bi, si))
                    if all(x[0] == "const" and x[1] == "0" for x in lo) and lo and any(x[0] == "call" and x[1][1].endswith("::len") for x in hi) and not any(x[0] in ("bin", "const") for x in hi) \
                            and all(x[1][1].endswith("::len") for x in hi if x[0] == "call"):
                        full = True
            elif "ArrayIter" in callee or "array::iterator" in callee:
                ro = M.operand_origins(b, b.term(n)["args"][0], at=(n, M.T))
                if not any(x[0] == "call" and re.search(r"::(take|skip|step_by|take_while|skip_while|filter)$", x[1][1]) for x in ro):
                    full = True
        if nexts and full and not early:
            cx.passed(ck, "walks-every-row", [b.sp(nexts[0]), b.sp(i)])
        else:
            why = ("no iterator drives the loop" if not nexts else "the walk is not 0..len(column) / the column's iterator" if not full else
                   "the loop can be left at %s before the column is exhausted (e.g. at the first NULL name)" % b.sp(early[0][0]))
            cx.violation(ck, "walks-every-row", "%s: %s: metric names of later rows never reach the published topic set, and subscribers filtering on them do not get the batch" % (b.sp(i), why), [b.sp(i)])
