"""C19 Write routing always terminates on a node that can accept writes.
Decided: boundedness (no recursion on the routing path, every loop on it is driven by an exhaustible iterator or a
constant range), the returned node passed the eligibility predicate in this call, the predicate itself (exhaustive
over status x type x ordering of load and the limit), every strategy draws its answer from the currently eligible
set.  Not decided: fairness / stability of assignments over membership histories."""
import itertools
import re

from engine import hir as H
from engine import mir as M
from engine import symeval as S
from engine.core import rule
from engine.program import named_parent

WR = "cluster::write_router::DistributedWriteRouter::route_write"
SA = "cluster::shard_assignment::ShardAssignment::"
NR = "cluster::node_registry::"
CAW = NR + "NodeInfo::can_accept_writes"
GHI = NR + "NodeRegistry::get_healthy_ingesters"


PICK = M.PURE_ADAPTERS | {"std::iter::Iterator::min_by_key", "std::iter::Iterator::max_by_key", "std::iter::Iterator::min_by", "std::iter::Iterator::max_by", "std::iter::Iterator::nth",
                          "std::iter::Iterator::find", "std::iter::Iterator::last", "core::slice::<impl [T]>::get", "core::slice::<impl [T]>::first", "std::ops::Index::index",
                          "std::option::Option::<T>::ok_or_else"}


def _sccs(b):
    """non-trivial strongly connected components of the CFG (Tarjan, iterative)"""
    n = len(b.blocks)
    index = {}
    low = {}
    onst = set()
    st = []
    out = []
    counter = [0]
    for root in range(n):
        if root in index or b.is_cleanup(root):
            continue
        work = [(root, iter(b.succs(root)))]
        index[root] = low[root] = counter[0]
        counter[0] += 1
        st.append(root)
        onst.add(root)
        while work:
            v, it = work[-1]
            adv = False
            for w in it:
                if w not in index:
                    index[w] = low[w] = counter[0]
                    counter[0] += 1
                    st.append(w)
                    onst.add(w)
                    work.append((w, iter(b.succs(w))))
                    adv = True
                    break
                elif w in onst:
                    low[v] = min(low[v], index[w])
            if adv:
                continue
            work.pop()
            if work:
                low[work[-1][0]] = min(low[work[-1][0]], low[v])
            if low[v] == index[v]:
                comp = []
                while True:
                    w = st.pop()
                    onst.discard(w)
                    comp.append(w)
                    if w == v:
                        break
                if len(comp) > 1 or v in b.succs(v):
                    out.append(set(comp))
    return out


@rule("C19", "R1", "bounded: nothing on the routing path calls itself (directly or through the assignment helpers), and every loop on it is driven by an iterator that runs out "
      "(for-loops, iterator adaptors) or is an await loop; the retry loop iterates a constant range")
def r1(cx):
    prog = cx.prog
    reach = {k for k in prog.reachable_from([WR]) if k.startswith("cluster::")}
    cx.floor("functions on the routing path", len(reach), 8)
    e = prog.edges()
    # recursion: a cycle in the call graph restricted to the routing path
    color = {}
    cyc = []

    def dfs(u, stack):
        color[u] = 1
        stack.append(u)
        for v in sorted(e.get(u, ())):
            if v not in reach:
                continue
            if color.get(v) == 1:
                cyc.append(stack[stack.index(v):] + [v])
            elif v not in color:
                dfs(v, stack)
        stack.pop()
        color[u] = 2
    import sys
    sys.setrecursionlimit(10000)
    dfs(WR, [])
    rec = []
    for c in cyc:
        names = [named_parent(x) for x in c]
        # a fn -> its own closure edge is construction, not recursion: recursion = a *call site* whose callee is an ancestor fn
        for a, bb in zip(c, c[1:]):
            for cs in prog.calls[a]["calls"]:
                if cs.get("cleanup"):
                    continue
                if bb in prog.callees_of_site(cs) and bb in (named_parent(x) for x in c):
                    rec.append((a, bb, cs["sp"]))
    if rec:
        a, bb, sp = rec[0]
        cx.violation(a, "recursion-on-routing-path", "%s: %s calls %s, which is on its own call path: routing a write can recurse without bound (stack overflow when the only node is draining)" % (sp, named_parent(a), bb), [sp])
    else:
        cx.passed(WR, "recursion-on-routing-path", [], "%d functions, no call cycle" % len(reach))
    n_loops = 0
    for k in sorted(reach):
        b = cx.body(k)
        if b is None:
            continue
        for comp in _sccs(b):
            n_loops += 1
            has_next = any(b.term(x)["k"] == "call" and re.search(r"Iterator::next$|DoubleEndedIterator::next_back$", b.term(x)["callee"]) for x in comp)
            has_yield = any(b.term(x)["k"] == "yield" for x in comp)
            if has_next or has_yield:
                cx.passed(k, "loop-driven-by-iterator", [b.sp(min(comp))])
            else:
                cx.violation(k, "unbounded-loop", "%s: %s contains a loop that is not driven by an iterator that runs out (a hand-written `loop` / `while`): if no element satisfies its exit "
                             "condition - e.g. no ring member is eligible - routing never returns" % (b.sp(min(comp)), named_parent(k)), [b.sp(min(comp))])
    cx.floor("loops on the routing path", n_loops, 3)
    # the retry loop's range is constant
    h = cx.hir(WR)
    ok = False
    for n in H.walk(h["tree"]):
        if n.get("k") == "for":
            it = H.strip(n["iter"])
            if it.get("k") == "struct" and (it["path"].get("path") or "").endswith("ops::Range"):
                f = dict((x[0], x[1]) for x in it["fields"])
                end = H.strip(f["end"])
                if end.get("k") == "lit" or (H.path_of(end) or "").split("::")[-1].isupper():
                    ok = True
    if ok:
        cx.passed(WR, "retry-range-constant", [h["span"]])
    else:
        cx.violation(WR, "retry-range-constant", "route_write does not retry over a constant range", [h["span"]])


@rule("C19", "R3", "the returned node passed the eligibility predicate in this call: Ok(Some(node)) in route_write is dominated by the true edge of can_accept_writes on that node")
def r3(cx):
    ck, b = cx.need_body(WR)
    te = set()
    for sw in M.bool_switches(b):
        r = sw["root"]
        if r and r[2] == "call" and r[3]["callee"] == CAW:
            te.add(sw["true_edge"])
    oks = [e for e in M.exit_defs(b) if e[2] == "ok"]
    some = []
    for (bi, si, cls) in oks:
        if si != M.T:
            org = M.operand_origins(b, b.blocks[bi]["stmts"][si]["rv"]["ops"][0], at=(bi, si)) if b.blocks[bi]["stmts"][si]["rv"]["k"] == "agg" and b.blocks[bi]["stmts"][si]["rv"]["ops"] else set()
            if any(o[0] == "agg" and str(o[1][2]).endswith("Option::Some") for o in org):
                some.append((bi, si))
    if not cx.floor("Ok(Some(node)) exits of route_write", len(some), 1, ck):
        return
    for (bi, si) in some:
        if te and b.dominated_by_edges(bi, te):
            cx.passed(ck, "returned-node-is-eligible", [b.sp(bi, si)])
        else:
            cx.violation(ck, "returned-node-is-eligible", "%s: route_write can return a node without having checked can_accept_writes() on it in this call (the assignment layer's view may be stale "
                         "or use a weaker notion of 'healthy')" % b.sp(bi, si), [b.sp(bi, si)])


@rule("C19", "R4", "the eligibility predicate is Healthy and (Ingester or Combined) and load < 95, on every status, node type and ordering of load and the limit; "
      "the registry's 'healthy ingesters' are exactly the nodes satisfying it")
def r4(cx):
    h = cx.hir(CAW)
    try:
        f = S.evalb(h["tree"], S.Env())
    except S.Unsupported as e:
        cx.violation(CAW, "predicate", "can_accept_writes left the analysable fragment: %s" % (str(e)[:120],), [h["span"]])
        return
    st_adt = cx.lib.adts.get("cluster::node_registry::NodeStatus") or cx.lib.adts.get("cluster::NodeStatus")
    ty_adt = cx.lib.adts.get("cluster::node_registry::NodeType") or cx.lib.adts.get("cluster::NodeType")
    stv = [v["name"] for v in st_adt["variants"]] if st_adt else []
    tyv = [v["name"] for v in ty_adt["variants"]] if ty_adt else []
    if not cx.floor("NodeStatus / NodeType variants", min(len(stv), len(tyv)), 3, CAW):
        return
    pn = h["params"][0].get("name")
    bad = None
    n = 0
    for s_, t_ in itertools.product(stv, tyv):
        def variant_of(sym, s_=s_, t_=t_):
            return s_ if sym.endswith(".status") else (t_ if sym.endswith(".node_type") else None)
        try:
            g = S.resolve(f, variant_of, lambda k: True)
        except S.Unsupported as e:
            bad = ("cannot specialise: %s" % e, s_, t_)
            break
        g = S.subst(g, {"%s.load_percent" % pn: "load", "lit:95": "limit"})
        for r in H.weak_orderings(["load", "limit"]):
            n += 1
            want = s_ == "Healthy" and t_ in ("Ingester", "Combined") and r["load"] < r["limit"]
            try:
                got = S.evaluate(g, r)
            except (KeyError, S.Unsupported) as e:
                bad = ("reads %s" % e, s_, t_)
                break
            if got != want:
                bad = ("status %s, type %s, %s: code says %s" % (s_, t_, H.show_ordering(r), got), s_, t_)
                break
        if bad:
            break
    if bad:
        cx.violation(CAW, "predicate", "%s: can_accept_writes is not `Healthy and (Ingester or Combined) and load < 95` (%s)" % (h["span"], bad[0]), [h["span"]])
    else:
        cx.passed(CAW, "predicate", [h["span"]], "%d cases" % n)
        cx.obligations += n - 1
        cx.discharged += n - 1
    # get_healthy_ingesters filters with the predicate
    ok = False
    for k in cx.prog.sub_bodies(GHI):
        b = cx.body(k)
        if b is None or cx.prog.calls[k].get("kind") != "closure":
            continue
        for (bi, si, kk, pay) in b.defs().get(0, []):
            if kk == "call" and pay["callee"] == CAW:
                ok = True
    if ok:
        cx.passed(GHI, "eligible-set-uses-predicate", [])
    else:
        cx.violation(GHI, "eligible-set-uses-predicate", "get_healthy_ingesters does not filter with can_accept_writes: the strategies draw from a set that contains nodes the router must not return "
                     "(e.g. overloaded ones)", [])


@rule("C19", "R2", "every strategy draws its answer from the currently eligible set: the node id an assign_* function returns derives from get_healthy_ingesters() of this call, or is a ring "
      "answer guarded by membership in that set, or comes from a ring rebuilt from that set in this call; assign_shard reuses an assignment only after can_accept_writes")
def r2(cx):
    for fn in ("assign_consistent_hash", "assign_round_robin", "assign_load_based"):
        ck, b = cx.code_body(SA + fn)
        if b is None:
            cx.violation(SA + fn, "anchor-missing", "body not found", [])
            continue
        ghi = M.find_calls(b, lambda c: c == GHI)
        oks = [(bi, si) for (bi, si, cls) in M.exit_defs(b) if cls in ("ok", "unknown") and si != M.T]
        oks += [(bi, M.T) for (bi, si, cls) in M.exit_defs(b) if cls == "unknown" and si == M.T]
        if not ghi:
            cx.violation(ck, "draws-from-eligible-set", "%s never asks the registry for the nodes that can currently accept writes" % fn, [])
            continue
        member = set()
        for sw in M.bool_switches(b):
            r = sw["root"]
            if r and r[2] == "call" and r[3]["callee"] in ("std::iter::Iterator::any", "core::slice::<impl [T]>::contains", "std::collections::HashSet::<T, S, A>::contains"):
                if M.has_call(M.operand_origins(b, r[3]["args"][0], at=(r[0], M.T)), lambda c: c == GHI):
                    member.add(sw["true_edge"])
        rebuilt = [bi for bi, t in b.calls() if t["callee"].endswith("ConsistentHashRing::add_node") and M.has_call(M.operand_origins(b, t["args"][1], at=(bi, M.T)), lambda c: c == GHI)]
        clears = M.find_calls(b, lambda c: c.endswith("ConsistentHashRing::clear"))
        bad = []
        for (bi, si) in oks:
            if si == M.T:
                t = b.term(bi)
                org = set()
                for a in t["args"]:
                    org |= M.operand_origins(b, a, at=(bi, M.T), adapters=M.PURE_ADAPTERS | {"std::option::Option::<T>::ok_or_else"})
            else:
                rv = b.blocks[bi]["stmts"][si]["rv"]
                org = M.operand_origins(b, rv["ops"][0], at=(bi, si), adapters=PICK) if rv["k"] == "agg" and rv["ops"] else (M.operand_origins(b, rv["o"], at=(bi, si), adapters=M.PURE_ADAPTERS | {"std::option::Option::<T>::ok_or_else"}) if rv["k"] == "use" else set())
            from_set = M.has_call(org, lambda c: c == GHI)
            from_ring = M.has_call(org, lambda c: c.endswith("ConsistentHashRing::get_node"))
            if from_set and not from_ring:
                continue
            if from_ring and ((member and b.dominated_by_edges(bi, member)) or (rebuilt and clears and any(b.reaches(r, bi) for r in rebuilt) and all(b.dominated_by_blocks(bi, set(clears)) for _ in [0]))):
                continue
            bad.append((bi, si))
        if bad:
            cx.violation(ck, "draws-from-eligible-set", "%s: %s can return a node id that was not checked against the nodes currently able to accept writes (a stale ring entry): route_write gets the "
                         "same ineligible node again and again" % (b.sp(bad[0][0], bad[0][1]), fn), [b.sp(x[0], x[1]) for x in bad])
        else:
            cx.passed(ck, "draws-from-eligible-set", [b.sp(g) for g in ghi])
    ck, b = cx.need_body(SA + "assign_shard")
    te = set()
    for sw in M.bool_switches(b):
        r = sw["root"]
        if r and r[2] == "call" and r[3]["callee"] == CAW:
            te.add(sw["true_edge"])
    strat = M.find_calls(b, lambda c: re.search(r"ShardAssignment::assign_(consistent_hash|round_robin|load_based)$", c) is not None)
    ss = set()
    for s in strat:
        ss |= M.outcome_edges(b, s)[0]
    oks = [e for e in M.exit_defs(b) if e[2] != "err"]
    bad = [e for e in oks if not b.dominated_by_edges(e[0], te | ss)]
    if oks and not bad and te:
        cx.passed(ck, "reuse-only-while-eligible", [b.sp(e[0], e[1]) for e in oks[:2]])
    else:
        cx.violation(ck, "reuse-only-while-eligible", "assign_shard can hand back an existing assignment without checking that its node can still accept writes", [b.sp(e[0], e[1]) for e in bad[:2]])
