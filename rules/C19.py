"""C19 Write routing always terminates on a node that can accept writes.
Decided: boundedness (no recursion on the routing path, every loop on it is driven by an exhaustible iterator or a
constant range), the returned node passed the eligibility predicate in this call, the predicate itself (exhaustive
over status x type x ordering of load and the limit), every strategy draws its answer from the currently eligible
set.  Not decided: fairness / stability of assignments over membership histories."""
import itertools
import re

from engine import hir as H
from engine import mir as M
from engine import symeval as S
from engine.core import rule
from engine.program import named_parent

WR = "cluster::write_router::DistributedWriteRouter::route_write"
SA = "cluster::shard_assignment::ShardAssignment::"
NR = "cluster::node_registry::"
CAW = NR + "NodeInfo::can_accept_writes"
GHI = NR + "NodeRegistry::get_healthy_ingesters"


PICK = M.PURE_ADAPTERS | {"std::iter::Iterator::min_by_key", "std::iter::Iterator::max_by_key", "std::iter::Iterator::min_by", "std::iter::Iterator::max_by", "std::iter::Iterator::nth",
                          "std::iter::Iterator::find", "std::iter::Iterator::last", "core::slice::<impl [T]>::get", "core::slice::<impl [T]>::first", "std::ops::Index::index",
                          "std::option::Option::<T>::ok_or_else"}


def _sccs(b):
    """non-trivial strongly connected components of the CFG (Tarjan, iterative)"""
    n = len(b.blocks)
    index = {}
    low = {}
    onst = set()
    st = []
    out = []
    counter = [0]
    for root in range(n):
        if root in index or b.is_cleanup(root):
            continue
        work = [(root, iter(b.succs(root)))]
        index[root] = low[root] = counter[0]
        counter[0] += 1
        st.append(root)
        onst.add(root)
        while work:
            v, it = work[-1]
            adv = False
            for w in it:
                if w not in index:
                    index[w] = low[w] = counter[0]
                    counter[0] += 1
                    st.append(w)
                    onst.add(w)
                    work.append((w, iter(b.succs(w))))
                    adv = True
                    break
                elif w in onst:
                    low[v] = min(low[v], index[w])
            if adv:
                continue
            work.pop()
            if work:
                low[work[-1][0]] = min(low[work[-1][0]], low[v])
            if low[v] == index[v]:
                comp = []
                while True:
                    w = st.pop()
                    onst.discard(w)
                    comp.append(w)
                    if w == v:
                        break
                if len(comp) > 1 or v in b.succs(v):
                    out.append(set(comp))
    return out


@rule("C19", "R1", "bounded: nothing on the routing path calls itself (directly or through the assignment helpers), and every loop on it is driven by an iterator that runs out "
      "(for-loops, iterator adaptors) or is an await loop; the retry loop iterates a constant range")
def r1(cx):
    prog = cx.prog
    reach = {k for k in prog.reachable_from([WR]) if k.startswith("cluster::")}
    cx.floor("functions on the routing path", len(reach), 8)
    e = prog.edges()
    # recursion: a cycle in the call graph restricted to the routing path
    color = {}
    cyc = []

    def dfs(u, stack):
        color[u] = 1
        stack.append(u)
        for v in sorted(e.get(u, ())):
            if v not in reach:
                continue
            if color.get(v) == 1:
                cyc.append(stack[stack.index(v):] + [v])
            elif v not in color:
                dfs(v, stack)
        stack.pop()
        color[u] = 2
    import sys
    sys.setrecursionlimit(10000)
    dfs(WR, [])
    rec = []
    for c in cyc:
        names = [named_parent(x) for x in c]
        # a fn -> its own closure edge is construction, not recursion: recursion = a *call site* whose callee is an ancestor fn
        for a, bb in zip(c, c[1:]):
            for cs in prog.calls[a]["calls"]:
                if cs.get("cleanup"):
                    continue
                if bb in prog.callees_of_site(cs) and bb in (named_parent(x) for x in c):
                    rec.append((a, bb, cs["sp"]))
    if rec:
        a, bb, sp = rec[0]
        cx.violation(a, "recursion-on-routing-path", "%s: %s calls %s, which is on its own call path: routing a write can recurse without bound (stack overflow when the only node is draining)" % (sp, named_parent(a), bb), [sp])
    else:
        cx.passed(WR, "recursion-on-routing-path", [], "%d functions, no call cycle" % len(reach))
    n_loops = 0
    for k in sorted(reach):
        b = cx.body(k)
        if b is None:
            continue
        for comp in _sccs(b):
            n_loops += 1
            has_next = any(b.term(x)["k"] == "call" and re.search(r"Iterator::next$|DoubleEndedIterator::next_back$", b.term(x)["callee"]) for x in comp)
            has_yield = any(b.term(x)["k"] == "yield" for x in comp)
            if has_next or has_yield:
                cx.passed(k, "loop-driven-by-iterator", [b.sp(min(comp))])
            else:
                cx.violation(k, "unbounded-loop", "%s: %s contains a loop that is not driven by an iterator that runs out (a hand-written `loop` / `while`): if no element satisfies its exit "
                             "condition - e.g. no ring member is eligible - routing never returns" % (b.sp(min(comp)), named_parent(k)), [b.sp(min(comp))])
    cx.floor("loops on the routing path", n_loops, 3)
    # the retry loop's range is constant
    h = cx.hir(WR)
    ok = False
    for n in H.walk(h["tree"]):
        if n.get("k") == "for":
            it = H.strip(n["iter"])
            if it.get("k") == "struct" and (it["path"].get("path") or "").endswith("ops::Range"):
                f = dict((x[0], x[1]) for x in it["fields"])
                end = H.strip(f["end"])
                if end.get("k") == "lit" or (H.path_of(end) or "").split("::")[-1].isupper():
                    ok = True
    if ok:
        cx.passed(WR, "retry-range-constant", [h["span"]])
    else:
        cx.violation(WR, "retry-range-constant", "route_write does not retry over a constant range", [h["span"]])


@rule("C19", "R3", "the returned node passed the eligibility predicate in this call: Ok(Some(node)) in route_write is dominated by the true edge of can_accept_writes on that node")
def r3(cx):
    ck, b = cx.need_body(WR)
    te = set()
    for sw in M.bool_switches(b):
        r = sw["root"]
        if r and r[2] == "call" and r[3]["callee"] == CAW:
            te.add(sw["true_edge"])
    oks = [e for e in M.exit_defs(b) if e[2] == "ok"]
    some = []
    for (bi, si, cls) in oks:
        if si != M.T:
            org = M.operand_origins(b, b.blocks[bi]["stmts"][si]["rv"]["ops"][0], at=(bi, si)) if b.blocks[bi]["stmts"][si]["rv"]["k"] == "agg" and b.blocks[bi]["stmts"][si]["rv"]["ops"] else set()
            if any(o[0] == "agg" and str(o[1][2]).endswith("Option::Some") for o in org):
                some.append((bi, si))
    if not cx.floor("Ok(Some(node)) exits of route_write", len(some), 1, ck):
        return
    for (bi, si) in some:
        if te and b.dominated_by_edges(bi, te):
            cx.passed(ck, "returned-node-is-eligible", [b.sp(bi, si)])
        else:
            cx.violation(ck, "returned-node-is-eligible", "%s: route_write can return a node without having checked can_accept_writes() on it in this call (the assignment layer's view may be stale "
                         "or use a weaker notion of 'healthy')" % b.sp(bi, si), [b.sp(bi, si)])


@rule("C19", "R4", "the eligibility predicate is Healthy and (Ingester or Combined) and load < 95, on every status, node type and ordering of load and the limit; "
      "the registry's 'healthy ingesters' are exactly the nodes satisfying it")
def r4(cx):
    h = cx.hir(CAW)
    try:
        f = S.evalb(h["tree"], S.Env())
    except S.Unsupported as e:
        cx.violation(CAW, "predicate", "can_accept_writes left the analysable fragment: %s" % (str(e)[:120],), [h["span"]])
        return
    st_adt = cx.lib.adts.get("cluster::node_registry::NodeStatus") or cx.lib.adts.get("cluster::NodeStatus")
    ty_adt = cx.lib.adts.get("cluster::node_registry::NodeType") or cx.lib.adts.get("cluster::NodeType")
    stv = [v["name"] for v in st_adt["variants"]] if st_adt else []
    tyv = [v["name"] for v in ty_adt["variants"]] if ty_adt else []
    if not cx.floor("NodeStatus / NodeType variants", min(len(stv), len(tyv)), 3, CAW):
        return
    pn = h["params"][0].get("name")
    bad = None
    n = 0
    for s_, t_ in itertools.product(stv, tyv):
        def variant_of(sym, s_=s_, t_=t_):
            return s_ if sym.endswith(".status") else (t_ if sym.endswith(".node_type") else None)
        try:
            g = S.resolve(f, variant_of, lambda k: True)
        except S.Unsupported as e:
            bad = ("cannot specialise: %s" % e, s_, t_)
            break
        g = S.subst(g, {"%s.load_percent" % pn: "load", "lit:95": "limit"})
        for r in H.weak_orderings(["load", "limit"]):
            n += 1
            want = s_ == "Healthy" and t_ in ("Ingester", "Combined") and r["load"] < r["limit"]
            try:
                got = S.evaluate(g, r)
            except (KeyError, S.Unsupported) as e:
                bad = ("reads %s" % e, s_, t_)
                break
            if got != want:
                bad = ("status %s, type %s, %s: code says %s" % (s_, t_, H.show_ordering(r), got), s_, t_)
                break
        if bad:
            break
    if bad:
        cx.violation(CAW, "predicate", "%s: can_accept_writes is not `Healthy and (Ingester or Combined) and load < 95` (%s)" % (h["span"], bad[0]), [h["span"]])
    else:
        cx.passed(CAW, "predicate", [h["span"]], "%d cases" % n)
        cx.obligations += n - 1
        cx.discharged += n - 1
    # get_healthy_ingesters filters with the predicate
    ok = False
    for k in cx.prog.sub_bodies(GHI):
        b = cx.body(k)
        if b is None or cx.prog.calls[k].get("kind") != "closure":
            continue
        for (bi, si, kk, pay) in b.defs().get(0, []):
            if kk == "call" and pay["callee"] == CAW:
                ok = True
    if ok:
        cx.passed(GHI, "eligible-set-uses-predicate", [])
    else:
        cx.violation(GHI, "eligible-set-uses-predicate", "get_healthy_ingesters does not filter with can_accept_writes: the strategies draw from a set that contains nodes the router must not return "
                     "(e.g. overloaded ones)", [])


@rule("C19", "R2", "every strategy draws its answer from the currently eligible set: the node id an assign_* function returns derives from get_healthy_ingesters() of this call, or is a ring "
      "answer guarded by membership in that set, or comes from a ring rebuilt from that set in this call; assign_shard reuses an assignment only after can_accept_writes")
def r2(cx):
    for fn in ("assign_consistent_hash", "assign_round_robin", "assign_load_based"):
        ck, b = cx.code_body(SA + fn)
        if b is None:
            cx.violation(SA + fn, "anchor-missing", "body not found", [])
            continue
        ghi = M.find_calls(b, lambda c: c == GHI)
        oks = [(bi, si) for (bi, si, cls) in M.exit_defs(b) if cls in ("ok", "unknown") and si != M.T]
        oks += [(bi, M.T) for (bi, si, cls) in M.exit_defs(b) if cls == "unknown" and si == M.T]
        if not ghi:
            cx.violation(ck, "draws-from-eligible-set", "%s never asks the registry for the nodes that can currently accept writes" % fn, [])
            continue
        member = set()
        for sw in M.bool_switches(b):
            r = sw["root"]
            if r and r[2] == "call" and r[3]["callee"] in ("std::iter::Iterator::any", "core::slice::<impl [T]>::contains", "std::collections::HashSet::<T, S, A>::contains"):
                if M.has_call(M.operand_origins(b, r[3]["args"][0], at=(r[0], M.T)), lambda c: c == GHI):
                    member.add(sw["true_edge"])
        rebuilt = [bi for bi, t in b.calls() if t["callee"].endswith("ConsistentHashRing::add_node") and M.has_call(M.operand_origins(b, t["args"][1], at=(bi, M.T)), lambda c: c == GHI)]
        clears = M.find_calls(b, lambda c: c.endswith("ConsistentHashRing::clear"))
        bad = []
        for (bi, si) in oks:
            if si == M.T:
                t = b.term(bi)
                org = set()
                for a in t["args"]:
                    org |= M.operand_origins(b, a, at=(bi, M.T), adapters=M.PURE_ADAPTERS | {"std::option::Option::<T>::ok_or_else"})
            else:
                rv = b.blocks[bi]["stmts"][si]["rv"]
                org = M.operand_origins(b, rv["ops"][0], at=(bi, si), adapters=PICK) if rv["k"] == "agg" and rv["ops"] else (M.operand_origins(b, rv["o"], at=(bi, si), adapters=M.PURE_ADAPTERS | {"std::option::Option::<T>::ok_or_else"}) if rv["k"] == "use" else set())
            from_set = M.has_call(org, lambda c: c == GHI)
            from_ring = M.has_call(org, lambda c: c.endswith("ConsistentHashRing::get_node"))
            if from_set and not from_ring:
                continue
            if from_ring and ((member and b.dominated_by_edges(bi, member)) or (rebuilt and clears and any(b.reaches(r, bi) for r in rebuilt) and all(b.dominated_by_blocks(bi, set(clears)) for _ in [0]))):
                continue
            bad.append((bi, si))
        if bad:
            cx.violation(ck, "draws-from-eligible-set", "%s: %s can return a node id that was not checked against the nodes currently able to accept writes (a stale ring entry): route_write gets the "
                         "same ineligible node again and again" % (b.sp(bad[0][0], bad[0][1]), fn), [b.sp(x[0], x[1]) for x in bad])
        else:
            cx.passed(ck, "draws-from-eligible-set", [b.sp(g) for g in ghi])
    ck, b = cx.need_body(SA + "assign_shard")
    te = set()
    for sw in M.bool_switches(b):
        r = sw["root"]
        if r and r[2] == "call" and r[3]["callee"] == CAW:
            te.add(sw["true_edge"])
    strat = M.find_calls(b, lambda c: re.search(r"ShardAssignment::assign_(consistent_hash|round_robin|load_based)$", c) is not None)
    ss = set()
    for s in strat:
        ss |= M.outcome_edges(b, s)[0]
    oks = [e for e in M.exit_defs(b) if e[2] != "err"]
    bad = [e for e in oks if not b.dominated_by_edges(e[0], te | ss)]
    if oks and not bad and te:
        cx.passed(ck, "reuse-only-while-eligible", [b.sp(e[0], e[1]) for e in oks[:2]])
    else:
        cx.violation(ck, "reuse-only-while-eligible", "assign_shard can hand back an existing assignment without checking that its node can still accept writes", [b.sp(e[0], e[1]) for e in bad[:2]])


LOCK_ACQ = re.compile(r"^(tokio|std)::sync::(RwLock|Mutex)::<T>::(read|write|lock)$")


def _self_type_prefix(key):
    k = named_parent(key)
    return k.rsplit("::", 1)[0] + "::" if "::" in k else None


def _direct_acqs(cx, fn_key):
    """{(field, mode, site)} lock acquisitions on fields of `self` made directly in fn_key's code body"""
    out = set()
    for k in cx.prog.sub_bodies(fn_key):
        b = cx.body(k)
        if b is None:
            continue
        for bi, t in b.calls():
            m = LOCK_ACQ.match(t["callee"])
            if not m or not t["args"]:
                continue
            o = M.operand_origins(b, t["args"][0], at=(bi, M.T))
            for x in o:
                if x[0] in ("upvar", "arg") and str(x[1]) in ("self", "1") and x[2].startswith("."):
                    out.add((x[2].split("@")[0], "write" if m.group(3) in ("write", "lock") else "read", b.sp(bi)))
    return out


def _self_calls(cx, fn_key):
    """[(body key, block, callee)] calls from fn_key's bodies to methods of the same type on the same `self`"""
    pre = _self_type_prefix(fn_key)
    out = []
    for k in cx.prog.sub_bodies(fn_key):
        b = cx.body(k)
        if b is None:
            continue
        for bi, t in b.calls():
            c = t["callee"]
            if pre and c.startswith(pre) and "::{closure" not in c and c in cx.prog.calls and t["args"]:
                o = M.operand_origins(b, t["args"][0], at=(bi, M.T))
                if any(x[0] in ("upvar", "arg") and str(x[1]) in ("self", "1") and x[2] == "" for x in o):
                    out.append((k, bi, c))
    return out


def _trans_acqs(cx, fn_key, memo, depth=0):
    if fn_key in memo:
        return memo[fn_key]
    memo[fn_key] = set()
    acc = {(f, m, sp, fn_key) for (f, m, sp) in _direct_acqs(cx, fn_key)}
    if depth < 6:
        for (_, _, c) in _self_calls(cx, fn_key):
            acc |= _trans_acqs(cx, c, memo, depth + 1)
    memo[fn_key] = acc
    return acc


@rule("C19", "R5", "no self-deadlock on the routing structures: while a guard of one of `self`'s tokio locks is live, no method of the same object is called that (transitively) acquires the "
      "same lock with a write on either side - tokio's RwLock / Mutex are not re-entrant, the task waits for itself for ever and every later route_write / assign / rebalance queues "
      "behind it")
def r5(cx):
    memo = {}
    fns = [k for k in cx.prog.fn_keys(r"^cluster::(shard_assignment|node_registry|write_router|query_router)::[A-Za-z]+::[a-z_0-9]+$")]
    cx.floor("methods of the routing structures", len(fns), 20)
    n = 0
    considered = 0
    for fk in fns:
        calls = _self_calls(cx, fk)
        if not calls:
            continue
        for (k, bi, c) in calls:
            b = cx.body(k)
            inner = _trans_acqs(cx, c, memo)
            if not inner:
                continue
            considered += 1
            for g, ty in M.guard_locals(b).items():
                if not re.search(r"tokio::sync::(RwLock(Read|Write)Guard|MutexGuard|OwnedRwLock|OwnedMutexGuard)|std::sync::(RwLock(Read|Write)Guard|MutexGuard)", ty):
                    continue
                if not M.held_at(b, g, bi):
                    continue
                gmode = "read" if "ReadGuard" in ty else "write"
                gfields = {f[1].split("@")[0] for f in M.guard_source(b, g) if str(f[0]) in ("self", "1")}
                for (f, m, sp, where) in sorted(inner):
                    if f in gfields:
                        n += 1
                        if gmode == "write" or m == "write":
                            cx.violation(fk, "reentrant-lock:%s->%s" % (f.lstrip("."), c.rsplit("::", 1)[1]), "%s: %s calls %s while holding the %s guard of self%s, and %s takes that lock again (%s at %s): "
                                         "the task deadlocks on itself" % (b.sp(bi), named_parent(fk).rsplit("::", 1)[1], c.rsplit("::", 1)[1], gmode, f, named_parent(where).rsplit("::", 1)[1], m, sp), [b.sp(bi), sp])
    cx.floor("self-calls into lock-acquiring methods of the routing structures", considered, 3)
    if not any(v["rule"] == "R5" for v in cx.violations):
        cx.passed("cluster", "no-reentrant-lock", [], "%d methods, %d self-calls into lock-acquiring methods examined, %d of them under a guard of the same lock field (read/read only)" % (len(fns), considered, n))


STATUSES = ["Healthy", "Suspected", "Failed", "Draining"]


def _status_transitions(cx):
    """[(src set, dst, fn key, span)] for every `x.status = NodeStatus::V` in the registry: src = statuses under which the assignment is reachable, read off the
    NodeStatus switches of the same body (an unguarded assignment has every status as source)"""
    out = []
    for k in cx.prog.fn_keys(r"^cluster::node_registry::"):
        b = cx.body(k)
        if b is None:
            continue
        switches = [(bi, blk["term"]) for bi, blk in enumerate(b.blocks) if not blk.get("cleanup") and blk["term"]["k"] == "switch" and (blk["term"].get("enum") or "").endswith("NodeStatus")]
        for bi, blk in enumerate(b.blocks):
            if blk.get("cleanup"):
                continue
            for si, st in enumerate(blk["stmts"]):
                p = st["lhs"].get("p") or []
                if not (p and isinstance(p[-1], dict) and p[-1].get("n") == "status"):
                    continue
                o = M.operand_origins(b, st["rv"]["o"], at=(bi, si)) if st["rv"]["k"] == "use" else set()
                dsts = {str(x[1][2]).rsplit("::", 1)[1] for x in o if x[0] == "agg" and "NodeStatus::" in str(x[1][2])}
                src = set(STATUSES)
                for (sb, t) in switches:
                    if not (sb == bi or b.reaches(sb, bi)):
                        continue
                    allowed = set()
                    listed = dict(zip(t["variants"], t["targets"]))
                    for v in STATUSES:
                        tg = listed.get(v, t["otherwise"])
                        if tg is not None and (tg == bi or b.reaches(tg, bi, removed_blocks={sb})):
                            allowed.add(v)
                    src &= allowed
                for d in dsts or {"?"}:
                    out.append((frozenset(src), d, k, b.sp(bi, si)))
    return out


@rule("C19", "R6", "draining is final: in the registry's status machine no chain of status assignments leads from Draining back to Healthy (a drained node leaves only by removal or by "
      "failing) - otherwise a node the operator drained is handed writes again")
def r6(cx):
    tr = _status_transitions(cx)
    if not cx.floor("status assignments in the node registry", len(tr), 4):
        return
    if any(d == "?" for (_, d, _, _) in tr):
        bad = [x for x in tr if x[1] == "?"][0]
        cx.violation(bad[2], "status-assignment-shape", "%s: a status assignment whose new value is not a NodeStatus literal" % bad[3], [bad[3]])
        return
    reach = {"Draining": None}
    frontier = ["Draining"]
    while frontier:
        s = frontier.pop()
        for (src, d, k, sp) in tr:
            if s in src and d not in reach:
                reach[d] = (s, k, sp)
                frontier.append(d)
    if "Healthy" in reach:
        chain = []
        s = "Healthy"
        while reach.get(s):
            p, k, sp = reach[s]
            chain.append("%s -> %s in %s (%s)" % (p, s, named_parent(k).rsplit("::", 1)[1], sp))
            s = p
        chain.reverse()
        cx.violation(reach["Healthy"][1], "draining-is-final", "a drained node can become Healthy again without being re-registered: %s; route_write then returns a node the operator took out of service" % "; ".join(chain),
                     [reach[x][2] for x in reach if reach[x]])
    else:
        cx.passed("cluster::node_registry", "draining-is-final", [x[3] for x in tr], "transitions: %s" % sorted({"%s->%s" % ("|".join(sorted(s)), d) for (s, d, _, _) in tr}))


@rule("C19", "R7", "the routing path cannot panic: in every function of cluster:: reachable from route_write, each overflow / bounds / division assert, unwrap / expect and slice or Vec index "
      "is discharged from a guarding comparison (the panic-site analysis of C17.R1) - a routing call that panics does not terminate on a node")
def r7(cx):
    import importlib
    c17 = importlib.import_module("rules.C17")
    roots = [k for k in cx.prog.calls if k.startswith(WR)]
    R = sorted(k for k in cx.prog.reachable_from(roots) if k.startswith(("cluster::", "<cluster::")))
    if not cx.floor("cluster functions reachable from route_write", len(R), 30):
        return
    n = bad = 0
    for k in R:
        b = cx.body(k)
        if b is None:
            continue
        for bi, blk in enumerate(b.blocks):
            if blk.get("cleanup"):
                continue
            t = blk["term"]
            ex = t.get("expn") or {}
            if ex.get("m") and not ex.get("ml"):
                continue
            if t["k"] == "assert":
                desc = t["akind"]
            elif t["k"] == "call" and c17.PANIC_CALL.search(t["callee"]):
                desc = t["callee"].rsplit("::", 2)[-2] + "::" + t["callee"].rsplit("::", 1)[-1]
            else:
                continue
            n += 1
            why = c17._discharge(cx, b, k, bi, t)
            if why:
                cx.passed(k, "panic-site:%s" % desc, [t["sp"]], "discharged: " + why)
            else:
                bad += 1
                cx.violation(k, "panic-site:%s" % desc, "%s: %s in %s can panic during a routing call and no comparison the analysis recognises bounds it on every path (e.g. an index kept from an earlier, "
                             "longer list): route_write then neither returns a node nor an error" % (t["sp"], desc, named_parent(k).rsplit("::", 2)[-2] + "::" + named_parent(k).rsplit("::", 1)[-1]), [t["sp"]])
    if not bad:
        cx.passed("cluster", "routing-path-panic-free", [], "%d functions, %d panic sites (all discharged)" % (len(R), n))


@rule("C19", "R8", "eligibility is judged on what the node reported: update_load stores the reported load of a known node on every path (no report is dropped as 'barely different'), because "
      "can_accept_writes compares exactly that field with the 95 % limit")
def r8(cx):
    fk = NR + "NodeRegistry::update_load"
    ck = cx.prog.code_key(fk)
    b = cx.body(ck)
    if b is None:
        cx.violation(fk, "anchor-missing", "body not found", [])
        return
    stores = []
    for bi, blk in enumerate(b.blocks):
        if blk.get("cleanup"):
            continue
        for si, st in enumerate(blk["stmts"]):
            p = st["lhs"].get("p") or []
            if p and isinstance(p[-1], dict) and p[-1].get("n") == "load_percent":
                o = M.operand_origins(b, st["rv"]["o"], at=(bi, si)) if st["rv"]["k"] == "use" else set()
                if any(x[0] in ("upvar", "arg") and "load_percent" in str(x[1]) for x in o) and not any(x[0] in ("bin", "call") for x in o):
                    stores.append((bi, si))
    if not cx.floor("stores of the reported load", len(stores), 1, ck):
        return
    # edges on which the node is known to be absent from the registry
    absent = set()
    for bi, blk in enumerate(b.blocks):
        t = blk["term"]
        if t["k"] == "switch" and t.get("enum") == "std::option::Option" and not blk.get("cleanup"):
            dl = t["discr"].get("pl", {}).get("l")
            src = [st["rv"]["pl"] for st in blk["stmts"] if st.get("lhs", {}).get("l") == dl and st["rv"].get("k") == "discr"]
            if not src:
                continue
            o = M.provenance(b, src[0], at=(bi, len(blk["stmts"]) - 1), adapters=frozenset())
            direct = [x for x in o if x[0] == "call"]
            if direct and all(re.search(r"HashMap::<K, V, S(, A)?>::(get|get_mut)$", x[1][1]) and M.strip_unwraps(x[2]) == "" for x in direct):
                for nme, tg in zip(t["variants"], t["targets"]):
                    if nme == "None":
                        absent.add((bi, tg))
                if "None" not in (t["variants"] or []) and t.get("otherwise") is not None:
                    absent.add((bi, t["otherwise"]))
    stored = {(bi, b.succs(bi)[0]) for (bi, si) in stores if b.succs(bi)}
    rets = [bi for bi, blk in enumerate(b.blocks) if blk["term"]["k"] == "return" and not blk.get("cleanup")]
    skipping = [r for r in rets if not b.dominated_by_edges(r, stored | absent)]
    if skipping:
        cx.violation(fk, "reported-load-is-recorded", "%s: update_load can return for a known node without recording the reported load: the report that crosses the 95 %% limit (e.g. 92 -> 96) is "
                     "dropped as noise, and every guard keeps handing writes to an overloaded node" % b.sp(skipping[0]), [b.sp(skipping[0])])
    else:
        cx.passed(fk, "reported-load-is-recorded", [b.sp(stores[0][0], stores[0][1])])


@rule("C19", "R9", "one lock order on the routing structures: over all methods of an object, 'a guard of lock A is live while lock B is acquired (directly or through a method of the same "
      "object)' never holds in both directions with a write involved on each lock - two tasks taking the locks in opposite orders (a route and a rebalance) wait for each other "
      "for ever")
def r9(cx):
    memo = {}
    fns = [k for k in cx.prog.fn_keys(r"^cluster::(shard_assignment|node_registry|write_router|query_router)::[A-Za-z]+::[a-z_0-9]+$")]
    edges = {}   # (type prefix, A, B) -> [(fn, mode held, mode acquired, span)]
    for fk in fns:
        pre = _self_type_prefix(fk)
        for k in cx.prog.sub_bodies(fk):
            b = cx.body(k)
            if b is None:
                continue
            guards = {}
            for g, ty in M.guard_locals(b).items():
                if re.search(r"tokio::sync::(RwLock(Read|Write)Guard|MutexGuard)|std::sync::(RwLock(Read|Write)Guard|MutexGuard)", ty):
                    fs = {f[1].split("@")[0] for f in M.guard_source(b, g) if str(f[0]) in ("self", "1")}
                    if fs:
                        guards[g] = (fs, "read" if "ReadGuard" in ty else "write")
            if not guards:
                continue
            acqs = []   # (block, field, mode, span)
            for bi, t in b.calls():
                m = LOCK_ACQ.match(t["callee"])
                if m and t["args"]:
                    for x in M.operand_origins(b, t["args"][0], at=(bi, M.T)):
                        if x[0] in ("upvar", "arg") and str(x[1]) in ("self", "1") and x[2].startswith("."):
                            acqs.append((bi, x[2].split("@")[0], "write" if m.group(3) in ("write", "lock") else "read", b.sp(bi)))
            for (kk, bi, c) in [s for s in _self_calls(cx, fk) if s[0] == k]:
                for (f, mode, sp, where) in _trans_acqs(cx, c, memo):
                    acqs.append((bi, f, mode, sp))
            for (bi, f, mode, sp) in acqs:
                for g, (fs, gmode) in guards.items():
                    if f in fs:
                        continue
                    if M.held_at(b, g, bi):
                        for a in fs:
                            edges.setdefault((pre, a, f), []).append((fk, gmode, mode, sp))
    n = len(edges)
    bad = []
    for (pre, a, f2), lst in edges.items():
        back = edges.get((pre, f2, a))
        if not back:
            continue
        # a write must be involved on each of the two locks somewhere in the cycle
        w_a = any(x[1] == "write" for x in lst) or any(x[2] == "write" for x in back)
        w_b = any(x[2] == "write" for x in lst) or any(x[1] == "write" for x in back)
        if w_a and w_b and a < f2:
            bad.append((pre, a, f2, lst[0], back[0]))
    cx.floor("lock-order edges on the routing structures", n, 1)
    if bad:
        for (pre, a, f2, e1, e2) in bad:
            cx.violation(e1[0], "lock-order-cycle:%s<->%s" % (a.lstrip("."), f2.lstrip(".")), "%s takes self%s (%s) and then self%s (%s at %s), while %s takes them in the opposite order (%s): a task in each "
                         "waits for the other's lock and neither routing call returns" % (named_parent(e1[0]).rsplit("::", 1)[1], a, e1[1], f2, e1[2], e1[3], named_parent(e2[0]).rsplit("::", 1)[1], e2[3]), [e1[3], e2[3]])
    else:
        cx.passed("cluster", "one-lock-order", [], "%d held-while-acquiring edges: %s" % (n, sorted("%s->%s" % (a.lstrip("."), f2.lstrip(".")) for (_, a, f2) in edges)))
