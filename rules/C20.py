"""C20 Compaction converges and levels only move up.
Decided: candidate selection takes only chunks of the level being compacted, iterates the chunk map (each chunk once)
and puts each chunk into exactly one group per call; the only stores to a level are 0 at registration and
max(source levels)+1 at the swap; a level-N merge needs at least two chunks and the level loop is bounded by the
configured maximum.  Not decided: convergence itself (a numeric measure over configurations)."""
import re

from engine import mir as M
from engine.core import rule
from engine.program import named_parent

S3T = "<metadata::s3::ObjectStoreMetadataClient as metadata::client::MetadataClient>::"
LOCT = "<metadata::local::LocalMetadataClient as metadata::client::MetadataClient>::"
CMP = "compactor::Compactor::"
MC = "metadata::client::MetadataClient::"


def _group_pushes(b):
    return [bi for bi, t in b.calls() if t["callee"] == "std::vec::Vec::<T, A>::push" and not b.is_cleanup(bi)
            and "std::string::String" in (t.get("self_ty") or "") or (t["callee"] == "std::vec::Vec::<T, A>::push" and "String" in b.locals[t["args"][1]["pl"]["l"]]["ty"] if t["args"][1]["k"] in ("copy", "move") else False)]


def _level_pred(o):
    return any(x[2].endswith(".level") for x in o if x[0] in ("call", "arg", "upvar")) or M.has_call(o, lambda c: c.endswith("RefMulti<'a, K, V>::value") or c.endswith("::value"))


@rule("C20", "R1", "same level only: a chunk enters an L0 group only where its level == 0 and a level-N group only where its level == N (both backends)")
def r1(cx):
    for pre, name in ((S3T, "object-store"), (LOCT, "in-memory")):
        # L0
        fk = pre + "get_l0_candidates"
        b = cx.body(fk + "::{closure#0}")
        if b is None:
            cx.violation(fk, "anchor-missing", "body not found", [])
            continue
        pushes = [bi for bi, t in b.calls() if t["callee"] == "std::vec::Vec::<T, A>::push"]
        zero = lambda o: any(x[0] == "const" and x[1] == "0" for x in o)
        eq, used = M.edges_implying(b, "eq", _level_pred, zero)
        if pushes and eq and all(b.dominated_by_edges(p, eq) for p in pushes):
            cx.passed(fk, "l0-only", [b.sp(p) for p in pushes])
        else:
            cx.violation(fk, "l0-only", "%s: a chunk can enter an L0 compaction group without its level being 0: chunks of different levels are merged together and a compacted chunk is "
                         "recompacted at L0 for ever" % (b.sp(pushes[0]) if pushes else "?"), [b.sp(p) for p in pushes])
        # level N
        fk = pre + "get_level_candidates"
        ok = False
        why = "no comparison of the chunk's level with the requested level guards the grouping"
        for k in cx.prog.sub_bodies(fk):
            bb = cx.body(k)
            if bb is None:
                continue
            is_req = lambda o: any(x[0] == "upvar" and "level" in str(x[1]) for x in o)
            if cx.prog.calls[k].get("kind") == "closure":
                good, w = M.closure_true_implies(bb, "eq", lambda o: any(x[2].endswith(".level") for x in o if x[0] == "arg"), is_req)
                if good:
                    ok = True
            else:
                eq, used = M.edges_implying(bb, "eq", _level_pred, is_req)
                ps = [bi for bi, t in bb.calls() if t["callee"] == "std::vec::Vec::<T, A>::push"]
                if eq and ps and any(bb.dominated_by_edges(p, eq) for p in ps):
                    ok = True
        if ok:
            cx.passed(fk, "level-n-only", [])
        else:
            cx.violation(fk, "level-n-only", "get_level_candidates (%s): %s" % (name, why), [])


@rule("C20", "R2", "disjoint groups: candidate selection iterates the chunk map (every chunk once), never the time index (a chunk appears under every hour it spans), and pushes "
      "the chunk into one group per iteration")
def r2(cx):
    for pre, name in ((S3T, "object-store"), (LOCT, "in-memory")):
        for fn in ("get_l0_candidates", "get_level_candidates"):
            fk = pre + fn
            b = cx.body(fk + "::{closure#0}")
            if b is None:
                continue
            nexts = M.find_calls(b, lambda c: c == "std::iter::Iterator::next")
            srcs = set()
            bad_src = None
            for nb in nexts:
                o = M.operand_origins(b, b.term(nb)["args"][0], at=(nb, M.T), adapters=M.PURE_ADAPTERS | {"std::collections::HashMap::<K, V, S, A>::iter", "dashmap::DashMap::<K, V, S>::iter",
                                                                                                          "std::collections::BTreeMap::<K, V, A>::iter", "std::collections::BTreeMap::<K, V, A>::values",
                                                                                                          "std::collections::BTreeMap::<K, V, A>::range", "std::collections::HashMap::<K, V, S, A>::into_iter"})
                for x in o:
                    if x[0] in ("call", "arg", "upvar"):
                        if ".time_index" in x[2]:
                            bad_src = nb
                        if ".chunks" in x[2] or ".chunk_levels" in x[2]:
                            srcs.add(nb)
                for x in o:
                    if x[0] in ("arg", "upvar") and "time_index" in str(x[1]) + x[2]:
                        bad_src = nb
            # field reads of time_index anywhere in the selection
            uses_index = any(".time_index" in M.pl_str(st["rv"].get("pl", {"l": 0})) for blk in b.blocks for st in blk["stmts"] if st["rv"]["k"] in ("ref",) and not blk.get("cleanup"))
            if bad_src is not None or uses_index:
                cx.violation(fk, "iterates-chunk-map", "%s: %s (%s) builds its groups from the time index: a chunk that spans an hour boundary is filed under two buckets and lands in two groups of one "
                             "cycle (merged twice, rows duplicated)" % (b.sp(bad_src) if bad_src is not None else b.j["span"], fn, name), [b.sp(bad_src) if bad_src is not None else b.j["span"]])
            else:
                cx.passed(fk, "iterates-chunk-map", [b.sp(n) for n in sorted(srcs)[:1]])
            # one push of the path per iteration: the push is not inside a loop nested in the chunk iteration
            from rules.C19 import _sccs
            comps = _sccs(b)
            pushes = [bi for bi, t in b.calls() if t["callee"] == "std::vec::Vec::<T, A>::push" and "String" in (b.locals[t["args"][1]["pl"]["l"]]["ty"] if t["args"][1]["k"] in ("copy", "move") else "")]
            multi = []
            for p in pushes:
                inside = [c for c in comps if p in c]
                # nested = more than one distinct SCC level is impossible with Tarjan; detect an inner cycle through p that avoids the outer iterator's next
                for c in inside:
                    outer = [x for x in c if b.term(x)["k"] == "call" and b.term(x)["callee"] == "std::iter::Iterator::next"]
                    if len(outer) > 1:
                        # the push can repeat without advancing the chunk iterator
                        if any(p in b.reachable(p, removed_blocks={o}) and b.reaches(p, p, removed_blocks={o}) for o in outer):
                            multi.append(p)
            # a group grows only by that one push: no bulk extension (extend / append / extend_from_slice) of a group with other chunks' paths
            bulk = [bi for bi, t in b.calls() if re.search(r"(Extend(<.*>)?::extend|Vec::<T, A>::(extend_from_slice|append|extend_from_within|insert|splice))$", t["callee"])
                    and any("String" in b.locals[a["pl"]["l"]]["ty"] and "Vec<" in b.locals[a["pl"]["l"]]["ty"] for a in t["args"][:1] if a.get("k") in ("copy", "move"))]
            if bulk:
                cx.violation(fk, "one-group-per-chunk", "%s: a candidate group is extended in bulk with other chunks' paths while the per-chunk walk goes on: those chunks are pushed again when the walk "
                             "reaches them and land in two groups of one cycle" % b.sp(bulk[0]), [b.sp(bulk[0])])
            elif multi:
                cx.violation(fk, "one-group-per-chunk", "%s: the path can be pushed more than once per chunk" % b.sp(multi[0]), [b.sp(multi[0])])
            elif pushes:
                cx.passed(fk, "one-group-per-chunk", [b.sp(p) for p in pushes[:2]])


@rule("C20", "R3", "levels only rise: a chunk's level is stored only as 0 for a freshly registered path and as max(source levels) + 1 at the compaction swap (both backends); "
      "nothing else in the library writes a level")
def r3(cx):
    from rules import C03
    before, ib = len(cx.violations), len(cx.instances)
    ob0, di0 = cx.obligations, cx.discharged
    C03.r4(cx)
    cx.obligations = ob0 + len(cx.instances[ib:])
    cx.discharged = di0 + len([i for i in cx.instances[ib:] if i["verdict"] == "holds"])
    # who stores a level
    allowed = {S3T + "complete_compaction": "swap: max + 1", "metadata::s3::ObjectStoreMetadataClient::atomic_register_chunk": "fresh chunk: 0",
               LOCT + "complete_compaction": "swap: max + 1", LOCT + "register_chunk": "fresh chunk: 0", LOCT + "delete_chunk": "removes the entry"}
    n = 0
    for k in cx.prog.fn_keys(r"^(metadata::|<metadata::|compactor::|sharding::|ingester::)"):
        b = cx.body(k)
        if b is None:
            continue
        for bi, blk in enumerate(b.blocks):
            if blk.get("cleanup"):
                continue
            for si, st in enumerate(blk["stmts"]):
                if st["lhs"].get("p") and M.pl_str(st["lhs"]).endswith(".level") and "ChunkMetadataExtended" in b.locals[st["lhs"]["l"]]["ty"] + str(M.pl_str(st["lhs"], b)):
                    n += 1
                    p = named_parent(k)
                    if p in allowed:
                        cx.passed(k, "level-store-site", [b.sp(bi, si)], allowed[p])
                    else:
                        cx.violation(k, "level-store-site", "%s: %s assigns a chunk's level outside registration and the compaction swap" % (b.sp(bi, si), p), [b.sp(bi, si)])
            t = blk["term"]
            if t["k"] == "call" and t["callee"] == "dashmap::DashMap::<K, V, S>::insert" and M.has_field(M.operand_origins(b, t["args"][0], at=(bi, M.T)), None, ".chunk_levels"):
                n += 1
                p = named_parent(k)
                val = t["args"][2]
                if p == LOCT + "register_chunk":
                    if val["k"] == "const" and val.get("int") == 0:
                        cx.passed(k, "level-store-site", [b.sp(bi)], "fresh chunk: 0")
                    else:
                        cx.violation(k, "level-store-site", "%s: a freshly registered chunk does not start at level 0" % b.sp(bi), [b.sp(bi)])
                elif p in allowed:
                    cx.passed(k, "level-store-site", [b.sp(bi)], allowed[p])
                else:
                    cx.violation(k, "level-store-site", "%s: %s stores a chunk level outside registration and the compaction swap" % (b.sp(bi), p), [b.sp(bi)])
    # fresh chunks start at 0 (object store)
    rb = cx.body("metadata::s3::ObjectStoreMetadataClient::atomic_register_chunk::{closure#0}")
    ok0 = False
    if rb is not None:
        for (bi, si, st) in M.aggregates(rb, lambda rv: rv.get("ak") == "adt" and rv.get("adt", "").endswith("ChunkMetadataExtended")):
            f = dict(zip(st["rv"]["fields"], st["rv"]["ops"]))
            if f["level"]["k"] == "const" and f["level"].get("int") == 0:
                ok0 = True
    if ok0:
        cx.passed("metadata::s3::ObjectStoreMetadataClient::atomic_register_chunk", "fresh-chunk-level-0", [])
    else:
        cx.violation("metadata::s3::ObjectStoreMetadataClient::atomic_register_chunk", "fresh-chunk-level-0", "a freshly registered chunk does not start at level 0 in the object-store backend", [])
    cx.floor("level store sites", n, 2)


@rule("C20", "R4", "progress: a level-N merge runs only on a group of at least two chunks; the level pass iterates 1..=max_levels; L0 groups are taken only when they reach the threshold")
def r4(cx):
    ck, b = cx.need_body(CMP + "compact_level")
    merges = M.find_calls(b, lambda c: c == CMP + "merge_chunks")
    is_len = lambda o: M.has_call(o, lambda c: c == "std::vec::Vec::<T, A>::len")
    is_two = lambda o: any(x[0] == "const" and x[1] == "2" for x in o)
    ge, used = M.edges_implying(b, "le", is_two, is_len)
    if merges and ge and all(b.dominated_by_edges(m, ge) for m in merges):
        cx.passed(ck, "merge-needs-two-chunks", [b.sp(m) for m in merges])
    else:
        cx.violation(ck, "merge-needs-two-chunks", "compact_level can merge a group of a single chunk: every cycle rewrites it one level up and compaction never reaches a fixed point", [b.sp(m) for m in merges])
    from engine import hir as H
    found = False
    for k in [CMP + "run_compaction_cycle"]:
        h = cx.hir(k)
        for n in H.walk(h["tree"]):
            if n.get("k") == "for":
                it = H.strip(n["iter"])
                calls = [m for m in H.walk(n["body"]) if m.get("k") == "mcall" and m["name"] == "compact_level"]
                if not calls:
                    continue
                txt = str(it)
                if "RangeInclusive" in txt and "max_levels" in txt:
                    found = True
    if found:
        cx.passed(CMP + "run_compaction_cycle", "level-loop-bounded", [])
    else:
        cx.violation(CMP + "run_compaction_cycle", "level-loop-bounded", "the level pass is not `for level in 1..=config.max_levels`", [])
    for pre, name in ((S3T, "object-store"), (LOCT, "in-memory")):
        fk = pre + "get_l0_candidates"
        ok = False
        for k in cx.prog.sub_bodies(fk):
            bb = cx.body(k)
            if bb is None or cx.prog.calls[k].get("kind") != "closure":
                continue
            good, w = M.closure_true_implies(bb, "le", lambda o: any(x[0] == "upvar" and "min_count" in str(x[1]) for x in o), lambda o: M.has_call(o, lambda c: c == "std::vec::Vec::<T, A>::len"))
            if good:
                ok = True
        if ok:
            cx.passed(fk, "l0-threshold", [])
        else:
            cx.violation(fk, "l0-threshold", "get_l0_candidates (%s) no longer keeps only groups with at least min_count chunks" % name, [])
