#!/bin/bash
# confirm_seed.sh <ID> <name>   e.g. C01 C01a
# In a private scratch worktree + private target dir: (1) patch applies, (2) demo FAILS with the patch,
# (3) demo PASSES without it, (4) the existing suite (minus the known 5-minute sleeper) passes with the patch.
# Serial use only (one confirmation at a time).
set -u
ID=$1; NAME=$2
SRC=/tmp/seed/$ID
WT=/tmp/wt/confirm
LOG=/tmp/seed/$ID/$NAME.confirm.log
export CARGO_TARGET_DIR=/tmp/tgt/confirm CARGO_INCREMENTAL=0 CARGO_NET_OFFLINE=true
mkdir -p /tmp/tgt
exec > "$LOG" 2>&1
echo "== confirm $NAME $(date)"
git -C /repo worktree remove --force $WT 2>/dev/null
git -C /repo worktree add -q --detach $WT HEAD || { echo "RESULT worktree-failed"; exit 2; }
cd $WT
git apply --check $SRC/$NAME.patch.diff || { echo "RESULT patch-does-not-apply"; git -C /repo worktree remove --force $WT; exit 2; }
git apply $SRC/$NAME.patch.diff
cp $SRC/$NAME.demo.rs tests/seed_$NAME.rs
echo "-- demo WITH the change"
timeout 3000 cargo test --offline --test seed_$NAME -- --test-threads 1 > /tmp/seed/$ID/$NAME.with.out 2>&1; W=$?
tail -15 /tmp/seed/$ID/$NAME.with.out
echo "-- existing suite WITH the change"
rm tests/seed_$NAME.rs
timeout 3000 cargo nextest run --workspace --no-fail-fast --offline --test-threads 8 -E 'not test(test_full_split_execution)' > /tmp/seed/$ID/$NAME.suite.out 2>&1; S=$?
tail -6 /tmp/seed/$ID/$NAME.suite.out
cp $SRC/$NAME.demo.rs tests/seed_$NAME.rs
echo "-- demo WITHOUT the change"
git apply -R $SRC/$NAME.patch.diff
timeout 3000 cargo test --offline --test seed_$NAME -- --test-threads 1 > /tmp/seed/$ID/$NAME.without.out 2>&1; O=$?
tail -8 /tmp/seed/$ID/$NAME.without.out
echo "RESULT name=$NAME demo_with_change_exit=$W suite_with_change_exit=$S demo_without_change_exit=$O"
if [ $W -ne 0 ] && [ $S -eq 0 ] && [ $O -eq 0 ]; then echo "CONFIRMED $NAME"; else echo "NOT-CONFIRMED $NAME"; fi
find $CARGO_TARGET_DIR/debug/deps -maxdepth 1 -type f -executable ! -name "*.so" -delete 2>/dev/null; rm -rf $CARGO_TARGET_DIR/debug/incremental
cd /; git -C /repo worktree remove --force $WT
