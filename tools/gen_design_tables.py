#!/usr/bin/env python3
"""prints the generated parts of DESIGN.md: rules as built (from the rule registry) and the seeded-change table"""
import importlib
import json
import os
import re
import sys

VERIF = os.path.dirname(os.path.dirname(os.path.abspath(__file__)))
sys.path.insert(0, VERIF)
from engine import core  # noqa: E402


def rules_md():
    out = []
    props = {json.loads(l)["id"]: json.loads(l) for l in open(os.path.join(VERIF, "properties.jsonl"))}
    known = json.load(open(os.path.join(VERIF, "known_findings.json")))
    for pid in sorted(props):
        importlib.import_module("rules." + pid)
        out.append("### %s %s" % (pid, props[pid]["title"]))
        for (rid, text, fn, tier) in core.RULES.get(pid, []):
            out.append("* **%s** %s" % (rid, text))
        op = [k for k in known["open"] if k["property"] == pid]
        fx = [k for k in known["fixed"] if k["property"] == pid]
        if op:
            out.append("")
            out.append("Open findings (printed as KNOWN-FINDING, exact keys in `known_findings.json`): " + "; ".join("`%s` - %s" % (k["key"].split("|", 1)[0] + "|…|" + k["key"].rsplit("|", 1)[1], k["what"]) for k in op) + ".")
        if fx:
            out.append("")
            out.append("Repaired (`fix:` commits): " + "; ".join("%s (%s)" % (k["commit"], k["key"].split("|")[0]) for k in fx) + ".")
        m = os.path.join(VERIF, "mutants", pid + ".py")
        if os.path.exists(m):
            mm = importlib.import_module("mutants." + pid)
            out.append("")
            out.append("Self-test mutants: " + ", ".join(x["id"] for x in mm.MUTANTS) + ".")
        out.append("")
    return "\n".join(out)


def seeds_md():
    out = ["| seed | breaks | needs to manifest | reported by |", "|---|---|---|---|"]
    d = os.path.join(VERIF, "seeded")
    for name in sorted(os.listdir(d)):
        m = json.load(open(os.path.join(d, name, "meta.json")))
        out.append("| %s | %s | %s | %s |" % (name, m["property"], m["needs_to_manifest"].replace("|", "/"), m["static_check"]["detected_by"].replace("|", "∣")))
    return "\n".join(out)


if __name__ == "__main__":
    which = sys.argv[1] if len(sys.argv) > 1 else "rules"
    print(rules_md() if which == "rules" else seeds_md())
