#!/usr/bin/env python3
"""Writes /verif/MANIFEST.json from the table below (single source of truth for what is claimed)."""
import json
import os
import sys

VERIF = os.path.dirname(os.path.dirname(os.path.abspath(__file__)))

# property -> (claimed text, level_note, technique, design_ref)
CLAIMS = {
    "C02": (
        "Decides the compare-and-swap discipline from which serialisability of successful catalog mutations follows (given an atomic "
        "conditional PUT): R1 only put_with_cas writes catalog objects (who-may-call over the resolved call graph); R2 the PUT is "
        "Create on the 'none' token / Update{e_tag: expected} otherwise, AlreadyExists/Precondition map to Conflict, Overwrite only under "
        "the opt-in flag after the conditional PUT failed (MIR dominance + HIR arm table); R3 at each of the 16 atomic_save_* sites token "
        "and content come from the same load_*_with_etag of the same retry iteration (MIR value provenance + cycle test); R4 no Ok exit is "
        "reachable from a failed save within one iteration (MIR reachability with variant-flow pruning, through cas_retry!); R5 readers use "
        "the single-object catalog. Does not decide that the retry budget suffices, cache staleness, or the store's atomicity.",
        "Trusted: rustc's type checker / MIR construction / callee resolution, the driver's serialisation, the engine's await/? normaliser, "
        "the reviewed exception tables in rules/C02.py (maintenance writers, creation token), atomicity of the object store's conditional PUT.",
        "static analysis: MIR dominance, value provenance and call-graph who-may-call over rustc_private facts; HIR arm tables",
        "DESIGN.md §3 C02"),
    "C05": (
        "Decides the structural skeleton of WAL recovery: R1 the reader pushes an entry (and counts it into the valid prefix) only after a full "
        "header read, a successful decode, a full payload read and an equal CRC, and every failure edge leaves the loop (MIR edge dominance + "
        "reachability from failure edges); R2 encode_header and decode_header agree on byte range, width and endianness of magic/version/flags/"
        "seq/len/crc, the layout is gap-free up to HEADER_LEN, the CRC covers the payload on both sides (typed-HIR frame tables cross-checked, "
        "reader positions by MIR provenance); R3 open() truncates the active segment to its valid prefix on every Ok path; R4 next_seq = "
        "max(last surviving, flushed mark) + 1; R5 remove_file only under segment.id < current and last_seq < seq (comparison edges normalised, "
        "operator rewrites tolerated); R6 append_payload writes and returns the pre-increment next_seq and increments before every exit. "
        "Does not decide byte-level exactness for every cut offset, nor fsync semantics.",
        "Trusted: rustc type checker / MIR, the driver, std::fs / tokio::fs semantics (set_len, append mode), crc32fast.",
        "static analysis: MIR edge dominance and value provenance; typed-HIR writer/reader frame-table agreement",
        "DESIGN.md §3 C05"),
    "C01": (
        "Decides the ordering / provenance skeleton of write, flush and recovery: R1 every call that buffers an incoming batch is dominated by "
        "the success edge of WriteAheadLog::append (or the no-WAL edge), with the same batch, only the write path and recovery insert into the "
        "buffer, the ack follows buffering; R2 append_payload propagates both writes and syncs before Ok under EveryWrite; R3 WAL truncation and "
        "both flushed marks are dominated by successful upload and registration; R4 the flushed mark must not be the shared last_wal_seq atomic "
        "(KNOWN FINDING: it is); R5 a failed flush must give the taken batches back (KNOWN FINDING: 4 sites drop them; recovery's flush is safe because its failure aborts recovery); R6 recovery replays from "
        "exactly the persisted mark into the buffer before the WAL is installed, and the ingester binary recovers before it serves. Does not "
        "decide loss-freedom under arbitrary crash / fault sequences (that needs the two findings repaired), fsync semantics, repeated restarts.",
        "Trusted: rustc / driver / engine normalisers; tokio::fs and std::fs semantics; the reviewed table of WriteBuffer methods that do not insert.",
        "static analysis: MIR edge dominance (must-pass-through), value provenance, who-may-call; lib + ingester binary",
        "DESIGN.md §3 C01"),
    "C12": (
        "For the comparison operators the decided part is the property itself, given the extracted formulas: every arm of "
        "ColumnPredicate::evaluate_against_stats and every value_* helper is symbolically evaluated from typed HIR into a comparison formula; "
        "R1 for each of Eq/Lt/LtEq/Gt/GtEq/In/Between, each value type and each convertible/unconvertible statistics combination, on EVERY weak "
        "ordering of (min, max, x, v[, low, high]) with min<=x<=max: predicate(x) implies include (exhaustive over order types, ~7.7k orderings); "
        "R2 NotEq/NotIn/Not always include, And/Or are implied by their sub-results, every enum variant has an analysable arm; R3 the catalog "
        "drops a chunk only on the may-not-match side of all(evaluate_against_stats(chunk's own stats)). Code outside the comparison-only "
        "fragment fails closed. Not decided: float NaN (not totally ordered), correctness of the stored statistics themselves.",
        "Trusted: rustc typed HIR, the driver, engine/symeval.py, the reference semantics table REF in rules/C12.py (variant -> predicate on a row value), "
        "total order of i64 / str / non-NaN f64, serde_json as_i64/as_f64/as_str returning None on a type mismatch.",
        "static analysis: symbolic evaluation of typed HIR + exhaustive ordering abstraction (all weak orderings)",
        "DESIGN.md §3 C12"),
    "C07": (
        "R1 both backends index a chunk under every bucket B(min), B(min)+H, ... <= B(max): the loop's exit edge implies bucket > end (strict), the index "
        "update is guarded by the other edge, the step is H, all hour constants (assoc consts, literals in hour_bucket and in the inlined lookup) are "
        "equal and hour_bucket is (t / H) * H; R2 TimeRange::overlaps, symbolically evaluated from HIR, equals 'exists x in both closed intervals' on "
        "every weak ordering of the four end points with a<=b, c<=d (exhaustive), contains likewise; R3 an edge implying range.start <= range.end "
        "dominates BTreeMap::range and overlaps in both lookups; R4 inclusive bucket scan from B(range.start) to B(range.end), seen-set skip, push only "
        "on the true edge of overlaps(chunk-map interval, query range); R5 delete / swap remove the path from map and index. Not decided: monotonicity "
        "of truncating division (hand argument in DESIGN.md), equality of the two backends on whole histories.",
        "Trusted: rustc / driver / engine; BTreeMap::range and HashSet semantics; the hour constant 3_600_000_000_000 as reference.",
        "static analysis: MIR comparison-edge dominance + value provenance; HIR symbolic evaluation with exhaustive ordering abstraction; constant agreement",
        "DESIGN.md §3 C07"),
    "C03": (
        "Decides the ordering skeleton of a compaction and the swap's preconditions: R1 merge_chunks returns a path only after that same path was uploaded and "
        "registered with metadata computed from the written batch, and the swap's target / sources are the merge's result / input; R2 sources are scheduled for "
        "deletion and the lease is completed only on the success edge of the swap (wrapper-aware), no delete_chunk in the compaction path; R3 both backends "
        "commit the swap only with the target known and every source still present; R4 level = max(source levels)+1; R5 a failed read_chunk aborts the merge "
        "and every given path is read; R6 merge only under an acquired lease on the same group; R7 atomic publish (KNOWN FINDING: the target is registered in a "
        "separate catalog update before the swap). Not decided: multiset equality of concat/sort/take, arbitrary crash sequences.",
        "Trusted: rustc / driver / engine; arrow concat/sort kernels; the object-store CAS discipline decided under C02.",
        "static analysis: MIR edge dominance with interprocedural must-wrappers, value provenance, who-may-call",
        "DESIGN.md §3 C03"),
    "C09": (
        "R1 every object-store delete in the library sits in the garbage collector or a reviewed deleter (who-may-call); R2 each path GC deletes comes from "
        "pending_deletions through a filter closure implying scheduled_at <= now - config.gc_grace_period and through one rejecting is_pinned(path), entries "
        "leave the list only after the delete attempt; R3 pin test and delete in one critical section (KNOWN FINDING: they are not); R4 retention reaches "
        "delete_chunk only through a filter implying max_timestamp < cut-off, schedules only after the catalog delete succeeded, days->ns constant exact; R5 "
        "cut-off = now - retention - max_skew (linear form extracted from HIR); R6 pending deletions loaded before the first cycle and persisted in every "
        "cycle after GC and retention, compaction schedules only after a successful swap; R7 the query's PinGuard is live across execution (guard-span "
        "must-analysis). Not decided: elapsed-time arithmetic at run time, cross-process pins.",
        "Trusted: rustc / driver / engine; chrono arithmetic; parking_lot / std RwLock semantics; the reviewed DELETERS table in rules/C09.py.",
        "static analysis: call-graph who-may-call, iterator-chain provenance with closure predicate normalisation, guard-span liveness, linear-form extraction",
        "DESIGN.md §3 C09"),
    "C11": (
        "Who-may-call over lib and all binaries: R1 every planning call is SessionContext::sql_with_options whose options are built by SQLOptions::new() with "
        "with_allow_ddl(false), with_allow_dml(false), with_allow_statements(false) (builder chain followed by provenance, literal arguments checked); no call "
        "of any other planning / plan-execution entry of the embedded engine (SessionContext::sql, execute_logical_plan, SessionState::create_logical_plan, "
        "statement_to_plan, DataFrame::new / write_*, read_*, register_*-by-URL ...) exists; the session's catalog is touched only by the engine's table "
        "registration; the SessionContext field is private and not handed out; R2 the query side issues no object-store writes except the caching store's "
        "delegations. Given DataFusion's verify_plan semantics this IS the property for statements arriving through the engine's entry points.",
        "Trusted: DataFusion 44 SQLOptions::verify_plan walks the whole logical plan and rejects Ddl/Dml/Copy/Statement before execution (checked in the vendored "
        "source); rustc callee resolution; the FORBIDDEN / CATALOG_OK tables in rules/C11.py.",
        "static analysis: resolved call-graph who-may-call with argument provenance (lib + binaries)",
        "DESIGN.md §3 C11"),
    "C13": (
        "R1 object store: every token-carrying save of a shard document is dominated by the equal edge of loaded.generation == expected_generation read in "
        "the same retry iteration, creation only on the load's not-found edge with expected == 0 and the create-if-absent token, a mismatch cannot end in Ok; "
        "R2 stored generation = expected + 1 (creation: 1) in both backends, saved value = the caller's metadata with that generation; R3 atomicity: object "
        "store - C02's token/content and no-Ok-after-failed-save rules restricted to the shard object; in-memory backend and router cache - no fresh "
        "DashMap::insert/remove after a comparison unless an entry guard of that map is held, stores go through the OccupiedEntry/VacantEntry that served "
        "the comparison (guard-span must-analysis). Not decided: histories of state transitions (active/splitting/pending deletion).",
        "Trusted: rustc / driver / engine; dashmap's entry API holds the shard lock for the entry's lifetime; atomic conditional PUT.",
        "static analysis: MIR comparison-edge dominance, value provenance, guard-span liveness",
        "DESIGN.md §3 C13"),
    "C08": (
        "R1 acquire (both backends): the conflict filter, symbolically evaluated from HIR, equals `status Active and expires_at > now` on every ordering of "
        "(expires_at, now) and both status values; the purge before the check keeps every live lease and drops every expired-active one (so a reclaimed "
        "holder's renew finds nothing); the insert is dominated by conflicts.is_empty(); new lease = {Active, now + TTL} with the check's `now`; in-memory: "
        "the table's write guard is live from check to insert; R2 renew succeeds only on the Some edge of the lookup and the Active edge of the status test, "
        "complete/fail set exactly their terminal status; R3 scavenge keeps exactly the live leases; R4 renewal interval (120 s) < every TTL / extension "
        "constant (4 sites, 300 s); R5 the lease file is written only through the conditional save with the same iteration's token, a failed save is never "
        "reported as success, and no unconditional object-store write exists in the metadata client. Not decided: wall-clock agreement between nodes.",
        "Trusted: rustc / driver / engine (symeval, ordering abstraction); chrono comparison is a total order; all nodes read the same clock (stated in the property).",
        "static analysis: symbolic evaluation of closures + exhaustive ordering abstraction; MIR edge dominance; guard-span liveness; constant comparison",
        "DESIGN.md §3 C08"),
    "C10": (
        "The property's mechanism is one clause and it is decided: R1 a guard of metrics_table_query_lock must be live when with_metrics_table runs the "
        "operation (KNOWN FINDING: the lock is released first, by design - concurrent queries can be planned against each other's chunk set). Around it: R2 the "
        "deregister/register sequence runs only under that lock (guard-span at the call and its polls), session-catalog mutation only in the registration "
        "functions, the 'already registered' short-cut returns only on equality with this call's path set; R3 the operation runs only on the success edge of a "
        "registration of the caller's own chunk list, every statement execution site lies inside a closure handed to with_metrics_table, and the list handed "
        "in comes from this query's catalog selection. Nothing else of C10 is static.",
        "Trusted: rustc / driver / engine; tokio::sync::Mutex guard semantics; DataFusion resolves table names at planning time.",
        "static analysis: guard-span liveness (must), MIR edge dominance, call-graph who-may-call with closure containment",
        "DESIGN.md §3 C10"),
    "C16": (
        "R1 CachedObjectStore::get keys the cache by `location` alone and its miss closure fetches that same captured location; in get_or_fetch every L1/L2 get and "
        "insert uses the key parameter, a value is inserted only if it is the successfully fetched content (dominated by the fetch's success edge) or the L2 "
        "entry of the same key; R2 each of 13 other ObjectStore methods hands its own arguments to the backing store's method of the same name, delete/rename "
        "invalidate the affected key first; R3 the cached path of get_opts is dominated, for EVERY field of object_store::GetOptions (table read from the "
        "type-checked ADT, so a new field alarms), by the edge on which that field is absent/false, and the bypass forwards location and options unchanged. "
        "Not decided: eviction / promotion inside moka and foyer, coalescing of concurrent misses, byte equality.",
        "Trusted: rustc / driver / engine; moka and foyer return what was inserted under a key; chunk objects are write-once (stated in the property).",
        "static analysis: value provenance, MIR edge dominance, sibling agreement over the trait's methods, ADT field table",
        "DESIGN.md §3 C16"),
    "C06": (
        "R1 every Ok exit of the buffering routine follows a successful WriteBuffer::append of the incoming batch; each append is dominated by the "
        "schema_compatible true edge with no re-acquisition of the buffer lock in between (one critical section); BufferFull rejects; R2 WriteBuffer's "
        "fields are private, only the reviewed mutators (append / take / clear) take &mut self, take() is mem::take + both counters zeroed, every flush's "
        "input is the result of take() and take() runs under the write guard; R3 at the three chunk writers (flush, dual-write, back-fill) the registered "
        "ChunkMetadata's path / row_count / min / max / size are computed from the encoded batch and uploaded bytes, registration follows a successful "
        "upload, extract_min uses min and extract_max uses max; R4 ingest paths contain a fresh UUID; R5 exactly one send per channel per flush, after "
        "registration, not in a loop, of the written batch. Not decided: multiset equality under interleavings, arrow concat / parquet encode.",
        "Trusted: rustc / driver / engine; arrow compute::min/max and RecordBatch::num_rows; tokio RwLock guard semantics; the BUF_MUTATORS table.",
        "static analysis: MIR edge dominance, value provenance across aggregates, guard-span liveness, who-may-mutate",
        "DESIGN.md §3 C06"),
    "C14": (
        "R1 from every assignment to a SplitProgress field (and every insertion into the done-set) no external effect and no Ok exit is reachable without "
        "passing persist_progress / remove_progress (MIR reachability with persist blocks removed); R2 next_phase's successor table, run_from_phase's phase "
        "order and per-phase arms (typed HIR tables + switch-edge dominance), resume_split redoes the preparation step from the loaded record; R3 every "
        "update_shard_metadata of the cut-over takes its expected generation from a read in the same invocation or is the creation guarded by 'just found "
        "absent'; R4 with the split state gone run_cutover succeeds iff all three recorded sub-steps are done; R5 cleanup only from the Cleanup arm, cut-over "
        "only at backfill_progress >= 1.0; R6 deterministic back-fill paths, a source is marked done only if no output write failed, the back-fill writer "
        "reports Ok only after upload AND registration, every Ok exit of the back-fill follows a republication of the fraction. Not decided: row "
        "conservation as multiset equality; durations of the grace periods.",
        "Trusted: rustc / driver / engine; the EFFECT_RX table of external effects in rules/C14.py; MetadataClient semantics decided under C02 / C13.",
        "static analysis: MIR reachability / edge dominance around persistence points, typed-HIR phase tables, value provenance",
        "DESIGN.md §3 C14"),
    "C19": (
        "R1 no call cycle among the functions reachable from route_write inside the cluster module (call-graph DFS over resolved call sites), every CFG loop (SCC) "
        "on that path contains an Iterator::next that can run out or is an await loop, the retry loop iterates a constant range; R2 each strategy returns a node id "
        "that derives from get_healthy_ingesters() of this call, or a ring answer dominated by a membership test against that set, or the answer of a ring cleared "
        "and refilled from that set in this call; assign_shard reuses an assignment only on the true edge of can_accept_writes; R3 Ok(Some(node)) in route_write is "
        "dominated by the true edge of can_accept_writes; R4 can_accept_writes, symbolically evaluated from HIR, equals Healthy and (Ingester|Combined) and load < 95 "
        "on every status x type x ordering(load, limit), and get_healthy_ingesters filters with it. Not decided: stability of assignments over membership histories.",
        "Trusted: rustc / driver / engine; std iterators are finite over finite collections; NodeStatus / NodeType variant tables from the type-checked program.",
        "static analysis: call-graph cycle detection, CFG SCCs, MIR edge dominance and provenance, symbolic evaluation with exhaustive case enumeration",
        "DESIGN.md §3 C19"),
    "C20": (
        "R1 a chunk enters an L0 group only on an edge implying level == 0 and a level-N group only through a test implying level == N (both backends, closure "
        "predicates and branch edges normalised); R2 candidate selection iterates the chunk map (unique keys), never the time index, and the path push cannot "
        "repeat without advancing the chunk iterator; R3 the only stores to a chunk level in the library are 0 at registration and max(source levels)+1 at the "
        "swap (C03.R4's arithmetic rule plus a who-may-store enumeration over all level assignments / chunk_levels inserts); R4 a level-N merge is dominated by "
        "group.len() >= 2, the level pass is for 1..=max_levels, L0 groups need len >= min_count. Convergence itself (a numeric measure over configurations) is "
        "not decided.",
        "Trusted: rustc / driver / engine; HashMap / DashMap iteration visits each key once.",
        "static analysis: MIR comparison-edge dominance, closure predicate normalisation, iterator-source provenance, who-may-store enumeration",
        "DESIGN.md §3 C20"),
    "C15": (
        "R1 in both split routines (ingester dual-write, back-fill) every row pushed to the vector that feeds returned position 0 is dominated by an edge implying "
        "ts < split and every row for position 1 by an edge implying split <= ts (so rows at the split point go up); a whole-batch short-cut is accepted only under "
        "max < split resp. split <= min; R4 side .0 is written to new_shards[0] and side .1 to new_shards[1] at the dual-write and at the back-fill, and the cut-over "
        "gives new_shards[0] the lower and new_shards[1] the upper key range; R5 Ingester::write takes the split-aware path exactly on the DualWrite and Backfill "
        "phase edges, and a failed write_to_shard cannot end in Ok; R2 the de-duplication key covers the whole row (every column, via RecordBatch::columns; the (timestamp, metric_name) key was "
        "repaired by fix 9588ed9) and R3 it must not run on the statement's results (KNOWN FINDING: it is applied after aggregation). Not decided: exactness of "
        "split-time reads (needs R3 repaired).",
        "Trusted: rustc / driver / engine; arrow take_record_batch selects exactly the given indices; big-endian i64 decoding of the split point.",
        "static analysis: MIR comparison-edge dominance (normalised), value provenance across tuple positions and index constants, switch-edge tables",
        "DESIGN.md §3 C15"),
    "C18": (
        "R1 extract_predicates_from_expr hands its conjunctive list to itself only under AND (match-arm and matches! forms), expr_to_predicate builds And/Or from both "
        "?-propagated sides; R2 mirror table for reversed operands, identity table SQL operator -> predicate, and for strings / integers / floats the table predicate X "
        "-> `row X literal` (operand order normalised), the merge-point cut clears a row only on an edge implying ts < merge point; R6 mask algebra: And narrows the "
        "incoming mask twice, Or evaluates both sides on copies of the incoming mask and stores left || right, Not only clears rows still set; R3 each TopicFilter "
        "variant's arm has its reference meaning (membership by contains, order-independent) and FilteredReceiver::recv returns a batch only on the true edge of "
        "matches; R4 every client send fed by the ingester broadcast (followed through tokio::select!) carries QueryFilter::apply's output, not the received batch; "
        "R5 a failed column down-cast must not leave the mask untouched (KNOWN FINDING). Not decided: delivery order / lag, arrow filter kernels.",
        "Trusted: rustc typed HIR / MIR, driver, engine; sqlparser's AST; the reference tables in rules/C18.py; subscribers keep up with the channel (stated).",
        "static analysis: typed-HIR variant/operator tables, MIR comparison-edge dominance, value provenance through select!",
        "DESIGN.md §3 C18"),
    "C17": (
        "R1 panic-site enumeration over the MIR of the ingest handlers, the hand-written protobuf reader, the converters and the synchronous part of Ingester::write "
        "(34 sites today: overflow / bounds / shift asserts, unwrap, slice indexing, arrow value(i)); each is discharged automatically from the comparison edges that "
        "guard it (index < len on every path with no redefinition in between, start + c <= len for data[start..start+c], ends produced by the bounded helper on its "
        "success edge, shift amounts re-checked on every cycle, positions bounded by the loop guard plus a small constant, wire-derived lengths never accepted) or by a "
        "reviewed entry whose stated guard is re-verified on every run; anything else is reported; R2 in the per-sample loop every path pushes exactly once on each of "
        "the five base columns and exactly one value column gets Some (path enumeration over typed HIR), one label value per known label; R3 ms -> ns by "
        "checked_mul(1_000_000), metric name by a full scan for __name__, all other label names collected, OTLP timestamps unscaled, OTLP resource labels computed per "
        "ResourceMetrics iteration. Not decided: numeric equality at 2^63, prost / snappy / arrow decoders, hangs other than non-advancing positions.",
        "Trusted: rustc's explicit Assert terminators at mir-opt-level 0 (every overflow / bounds / shift check is visible), driver, engine; the reviewed summaries of "
        "read_varint (.1 <= data.len()) and field_end (pos <= end <= data.len()); the REVIEWED table in rules/C17.py.",
        "static analysis: MIR panic-site enumeration with guard discharge over comparison edges; HIR path enumeration (lock-step pushes); HIR shape tables",
        "DESIGN.md §3 C17"),
    "C04": (
        "Decides that the pruning inputs over-approximate where that is a matter of code shape: R1 no wall-clock value may reach the TimeRange used for selection "
        "(KNOWN FINDING: last-hour default), R2 the time-bound extractor may hand its accumulators to itself only under AND (KNOWN FINDING: And | Or), R3 bounds are "
        "widened (lower by min, upper by max), never overwritten or narrowed (KNOWN FINDING: Eq assigns outright), R4 direct and reversed operator tables set the right "
        "bound and mirror each other, R5 the index path plans the caller's SQL unchanged through the read-only planner and returns that plan's rows, only get_/record_ "
        "calls on the controller; R6 includes the chunk-selection rules of C07 (R1-R5) and C12 (R1-R4) and R7 the per-query binding rules C10.R2/R3, evaluated under "
        "this property. Equality with a full scan, DataFusion's SQL semantics and literal coercions are not decided.",
        "Trusted: rustc / driver / engine; DataFusion plans and executes the SQL it is given; everything trusted by C07, C10 and C12.",
        "static analysis: typed-HIR operator/accumulator tables, MIR value provenance, inclusion of the C07 / C12 / C10 rule sets",
        "DESIGN.md §3 C04"),
}

NOT_YET = "rule set under construction in this round; see DESIGN.md §3 for the planned static rules"


def _with_later_rules(pid, text):
    """rules added to the registry after the hand-written claim text: list them (id + first clause) so the claim names every rule the check runs"""
    import importlib
    import re
    sys.path.insert(0, VERIF)
    from engine import core
    importlib.import_module("rules." + pid)
    later = []
    for (rid, rtext, fn, tier) in core.RULES.get(pid, []):
        if not re.search(r"\b%s\b" % rid, text):
            first = re.split(r"(?<=[a-z0-9\)]): ", rtext, 1)[0]
            later.append("%s %s" % (rid, first[:200]))
    if later:
        text = text.rstrip() + " Rules added later (full text in DESIGN.md \u00a73, same limits apply - each decides the named structural part, not the behaviour): " + "; ".join(later) + "."
    return text


def main():
    props = [json.loads(l) for l in open(os.path.join(VERIF, "properties.jsonl"))]
    na_reasons = {}
    p = os.path.join(VERIF, "tools", "not_applicable.json")
    if os.path.exists(p):
        na_reasons = json.load(open(p))
    checks = []
    na = []
    for pr in props:
        pid = pr["id"]
        if pid in CLAIMS and os.path.exists(os.path.join(VERIF, "rules", pid + ".py")):
            text, note, tech, ref = CLAIMS[pid]
            text = _with_later_rules(pid, text)
            checks.append({
                "property_id": pid,
                "quick_cmd": "./check %s --tier quick" % pid,
                "thorough_cmd": "./check %s --tier thorough" % pid,
                "evidence_file": "/verif/evidence/%s.json" % pid,
                "replay_cmd_template": "./check %s --replay {path}" % pid,
                "engine": "csfacts+rules",
                "level_claimed": {"category": "other", "text": text, "design_ref": ref},
                "level_note": note,
                "technique": tech,
            })
        else:
            na.append({"property_id": pid, "reason": na_reasons.get(pid, NOT_YET)})
    man = {
        "version": 1,
        "setup_cmd": "./check --setup",
        "hooks": {
            "guard": "cardinalsin_verif (unused: the analysis executes nothing, no hook was added to /repo)",
            "enable": "none needed; checks run `cargo +nightly check` on /repo's working tree with the csfacts driver as RUSTC_WORKSPACE_WRAPPER",
            "baseline_off_cmd": "cd /repo && cargo nextest run --workspace --no-fail-fast --tool-config-file pb:/w/lib/nextest.toml --profile pb --test-threads 8 --offline",
            "source_commits": [],
            "add_only": True,
        },
        "engines": [{
            "name": "csfacts+rules",
            "path": "/verif/driver, /verif/engine, /verif/rules",
            "serves_properties": [c["property_id"] for c in checks],
            "kind_free_text": "rustc_private fact extractor (typed HIR + pre-coroutine MIR with resolved callees) and a Python rule engine: "
                              "edge-set dominance, value provenance, guard spans, variant flow, call-graph who-may-call, HIR variant tables, ordering abstraction",
        }],
        "checks": checks,
        "not_applicable": na,
        "notes": "Static analysis only: nothing of /repo is executed. Exit 0 = no unlisted violation, 1 = VIOLATION lines, 3 = infrastructure error "
                 "(tree does not compile). Genuine defects that are recorded rather than repaired are listed in /verif/known_findings.json and printed as KNOWN-FINDING lines.",
    }
    with open(os.path.join(VERIF, "MANIFEST.json"), "w") as f:
        json.dump(man, f, indent=1)
    print("checks:", [c["property_id"] for c in checks], "not_applicable:", len(na))


if __name__ == "__main__":
    main()
