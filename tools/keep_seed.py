#!/usr/bin/env python3
"""tools/keep_seed.py <ID> <name> <detected-by key substring or 'MISSED'> <needs...>  - file a confirmed seeded change under /verif/seeded/<name>/"""
import json
import os
import re
import shutil
import sys

VERIF = os.path.dirname(os.path.dirname(os.path.abspath(__file__)))
ID, name, detected = sys.argv[1], sys.argv[2], sys.argv[3]
needs = " ".join(sys.argv[4:])
PROP = re.sub(r"r\d+$", "", ID)
src = "/tmp/seed/%s" % ID
log = open("%s/%s.confirm.log" % (src, name)).read()
m = re.search(r"RESULT name=\S+ demo_with_change_exit=(\d+) suite_with_change_exit=(\d+) demo_without_change_exit=(\d+)", log)
assert m and "CONFIRMED %s" % name in log and "NOT-CONFIRMED" not in log, "seed not confirmed"
dst = os.path.join(VERIF, "seeded", name)
os.makedirs(dst, exist_ok=True)
shutil.copy("%s/%s.patch.diff" % (src, name), dst + "/patch.diff")
shutil.copy("%s/%s.demo.rs" % (src, name), dst + "/demo.rs")
shutil.copy("%s/%s.notes.md" % (src, name), dst + "/notes.md")
suite_tail = open("%s/%s.suite.out" % (src, name)).read().strip().splitlines()[-3:]
meta = {
    "id": name,
    "property": PROP,
    "round": int(re.search(r"r(\d+)$", ID).group(1)) if re.search(r"r(\d+)$", ID) else 1,
    "breaks": open("/tmp/seed/%s.prop.txt" % ID).read().split("\n")[0],
    "needs_to_manifest": needs,
    "origin": "independent sub-agent given only the property text and a scratch worktree (nothing from /verif)",
    "confirmed_by": "tools/confirm_seed.sh %s %s (private worktree + private target dir, repo HEAD %s)" % (ID, name, os.popen("git -C /repo rev-parse --short HEAD").read().strip()),
    "confirmation": {
        "demo_with_change_exit": int(m.group(1)), "existing_suite_with_change_exit": int(m.group(2)), "demo_without_change_exit": int(m.group(3)),
        "suite_cmd": "cargo nextest run --workspace --no-fail-fast --offline -E 'not test(test_full_split_execution)'",
        "suite_tail": suite_tail,
        "demo_cmd": "cp demo.rs tests/seed_%s.rs && cargo test --offline --test seed_%s" % (name, name),
    },
    "static_check": {"cmd": "tools/seedcheck.py seeded/%s/patch.diff %s" % (name, PROP), "detected_by": detected},
}
json.dump(meta, open(dst + "/meta.json", "w"), indent=1)
print("kept", dst)
