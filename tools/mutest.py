#!/usr/bin/env python3
"""Mutant self-test: applies seeded single-instance breakages to a scratch copy of /repo (outside
/repo and /verif, removed afterwards), re-extracts facts for the copy and checks that the property's
check reports each mutant under the expected violation key - and nothing on a behaviour-preserving
'silent twin'.

  tools/mutest.py C02            all mutants of C02, bundled where possible
  tools/mutest.py C02 M3         one mutant
  tools/mutest.py --all

A mutant = {id, file, find, replace, [nth], expect: [substring of a violation key], [silent: True]}.
Exit 0 = every applied mutant behaved as expected; 1 = a mutant was missed / a twin alarmed; skipped
mutants (text no longer present because /repo changed) are listed but do not fail the run.
"""
import importlib
import json
import os
import re
import shutil
import subprocess
import sys
import tempfile

VERIF = os.path.dirname(os.path.dirname(os.path.abspath(__file__)))
sys.path.insert(0, VERIF)
REPO = os.environ.get("CS_REPO", "/repo")


def copy_repo(dst):
    subprocess.check_call(["rsync", "-a", "--exclude", "target", "--exclude", ".git", REPO + "/", dst + "/"])


def apply(root, m):
    if m.get("revert"):
        # undo one /repo commit (typically a `fix:` commit) in the scratch copy
        shas = m["revert"] if isinstance(m["revert"], list) else [m["revert"]]
        for sha in shas:
            d = subprocess.run(["git", "-C", REPO, "show", "--format=", sha], stdout=subprocess.PIPE, text=True)
            if d.returncode != 0:
                return False
            r = subprocess.run(["patch", "-R", "-p1", "-s", "--no-backup-if-mismatch", "-d", root], input=d.stdout, text=True,
                               stdout=subprocess.PIPE, stderr=subprocess.STDOUT)
            if r.returncode != 0:
                return False
        return True
    edits = m.get("edits") or [m]
    texts = {}
    for e in edits:
        f = e.get("file", m.get("file"))
        p = os.path.join(root, f)
        t = texts.get(p)
        if t is None:
            t = open(p).read()
        find = e["find"]
        n = t.count(find)
        nth = e.get("nth", 0)
        if n == 0 or nth >= n:
            return False
        idx = -1
        for _ in range(nth + 1):
            idx = t.index(find, idx + 1)
        texts[p] = t[:idx] + e["replace"] + t[idx + len(find):]
    for p, t in texts.items():
        open(p, "w").write(t)
    return True


def run_check(prop, root, tier="quick"):
    env = dict(os.environ, CS_REPO=root, CS_NO_EVIDENCE="1")
    r = subprocess.run([os.path.join(VERIF, "check"), prop, "--tier", tier], env=env, stdout=subprocess.PIPE,
                       stderr=subprocess.STDOUT, text=True, cwd=VERIF)
    keys = re.findall(r"^\s+key (.+)$", r.stdout, re.M)
    return r.returncode, keys, r.stdout


def conflicts(a, b):
    if "edits" in a or "edits" in b or "revert" in a or "revert" in b:
        return True
    return a["file"] == b["file"] and (a["find"] in b["find"] or b["find"] in a["find"])


def run_property(prop, only=None, verbose=True):
    mod = importlib.import_module("mutants.%s" % prop)
    muts = [m for m in mod.MUTANTS if only is None or m["id"] in only]
    # bundle greedily: non-conflicting mutants with distinct expected keys share one extraction
    bundles = []
    for m in muts:
        if m.get("alone") or m.get("silent"):
            bundles.append([m])
            continue
        for bd in bundles:
            if any(x.get("alone") or x.get("silent") for x in bd):
                continue
            if not any(conflicts(m, x) for x in bd) and not (set(m["expect"]) & set(e for x in bd for e in x["expect"])):
                bd.append(m)
                break
        else:
            bundles.append([m])
    results = []
    for bd in bundles:
        results.extend(run_bundle(prop, bd, verbose))
    # a bundle member that was missed is retried alone (mutants can mask each other)
    retry = [r for r in results if r["status"] in ("MISSED", "ERROR") and r.get("bundled")]
    for r in retry:
        m = next(x for x in muts if x["id"] == r["id"])
        r2 = run_bundle(prop, [m], verbose)[0]
        results[results.index(r)] = r2
    return results


def run_bundle(prop, bd, verbose):
    tmp = tempfile.mkdtemp(prefix="csmut_", dir=os.environ.get("TMPDIR", "/tmp"))
    out = []
    try:
        copy_repo(tmp)
        applied = []
        for m in bd:
            if apply(tmp, m):
                applied.append(m)
            else:
                out.append({"id": m["id"], "status": "SKIPPED", "why": "text to mutate not found in the current tree"})
        if not applied:
            return out
        rc, keys, stdout = run_check(prop, tmp)
        if rc == 3:
            for m in applied:
                out.append({"id": m["id"], "status": "ERROR", "why": stdout[-1500:], "bundled": len(applied) > 1})
            return out
        for m in applied:
            if m.get("silent"):
                st = "OK" if rc == 0 and not keys else "FALSE-ALARM"
                out.append({"id": m["id"], "status": st, "keys": keys})
                continue
            hit = [k for k in keys if all(e in k for e in m["expect"])]
            out.append({"id": m["id"], "status": "CAUGHT" if hit else "MISSED", "keys": hit or keys[:6], "bundled": len(applied) > 1})
        if verbose:
            for o in out:
                print("  [%s] %s %s %s" % (prop, o["id"], o["status"], (o.get("keys") or [o.get("why", "")])[:2]), flush=True)
        return out
    finally:
        shutil.rmtree(tmp, ignore_errors=True)


def main(argv):
    if not argv:
        print(__doc__)
        return 2
    props = []
    only = None
    if argv[0] == "--all":
        props = sorted(f[:-3] for f in os.listdir(os.path.join(VERIF, "mutants")) if re.match(r"C\d+\.py$", f))
    else:
        props = [argv[0]]
        if len(argv) > 1:
            only = set(argv[1:])
    bad = 0
    summary = {}
    for p in props:
        res = run_property(p, only)
        summary[p] = res
        for r in res:
            if r["status"] in ("MISSED", "FALSE-ALARM", "ERROR"):
                bad += 1
    print(json.dumps({p: {r["id"]: r["status"] for r in rs} for p, rs in summary.items()}, indent=1))
    return 1 if bad else 0


if __name__ == "__main__":
    sys.exit(main(sys.argv[1:]))
