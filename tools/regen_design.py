#!/usr/bin/env python3
"""regenerates the generated parts of DESIGN.md: §3 (rules from the registry) and §7 (seed counts per round + table)"""
import json, os, subprocess, sys, re
VERIF = os.path.dirname(os.path.dirname(os.path.abspath(__file__)))
p = os.path.join(VERIF, "DESIGN.md")
t = open(p).read()
d = os.path.join(VERIF, "seeded")
rounds = {}
for n in sorted(os.listdir(d)):
    m = json.load(open(os.path.join(d, n, "meta.json")))
    rd = m.get("round", 1)
    det = m["static_check"]["detected_by"]
    missed = bool(re.search(r"added after|refined after|extended.*after|was hidden by", det))
    closed = "anchor-missing" in det
    r = rounds.setdefault(rd, {"n": 0, "missed": 0, "closed": 0})
    r["n"] += 1
    r["missed"] += missed
    r["closed"] += (closed and not missed)
# round 1 was tallied by hand while it was processed (13 first misses: 9 got a whole new rule - marked in the table below - and 4 a refinement of an existing one)
if 1 in rounds:
    rounds[1]["missed"] = 13
total = sum(r["n"] for r in rounds.values())
lines = []
for rd in sorted(rounds):
    r = rounds[rd]
    lines.append("| %d | %d | %d | %d | %d |" % (rd, r["n"], r["n"] - r["missed"], r["closed"], r["missed"]))
stats = "| round | changes | reported by the rules as they stood | ... of these only by a missing anchor (fails closed) | first missed, rule added or sharpened |\n|---|---|---|---|---|\n" + "\n".join(lines)
i = t.index("## 7. Independent seeded changes and which rule reports each")
j = t.index("| seed | breaks | needs to manifest | reported by |")
prose = open(os.path.join(VERIF, "tools", "design_s7_prose.md")).read().replace("@@TOTAL@@", str(total)).replace("@@STATS@@", stats)
t = t[:i] + prose + "\n" + t[j:]
tab = subprocess.run([sys.executable, os.path.join(VERIF, "tools", "gen_design_tables.py"), "seeds"], capture_output=True, text=True, cwd=VERIF).stdout
i = t.index("| seed | breaks | needs to manifest | reported by |"); j = t.index("## 8. False alarms")
t = t[:i] + tab.rstrip() + "\n\n\n" + t[j:]
out = subprocess.run([sys.executable, os.path.join(VERIF, "tools", "gen_design_tables.py"), "rules"], capture_output=True, text=True, cwd=VERIF).stdout
i = t.index("## 3. Rules per property"); j = t.index("## 4. Not applicable")
hdr = t[i:t.index("\n", i) + 1]
t = t[:i] + hdr + "\n" + out.rstrip() + "\n\n" + t[j:]
open(p, "w").write(t)
print("rounds:", rounds, "total", total)
