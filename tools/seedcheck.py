#!/usr/bin/env python3
"""tools/seedcheck.py <patch.diff> [Cxx ...]  - apply a seeded change to a scratch copy of /repo and run the
given (default: all claimed) checks against it; prints the violation keys per property."""
import json
import os
import shutil
import subprocess
import sys
import tempfile

VERIF = os.path.dirname(os.path.dirname(os.path.abspath(__file__)))
sys.path.insert(0, os.path.join(VERIF, "tools"))
import mutest  # noqa: E402


def main(argv):
    patch = argv[0]
    props = argv[1:] or [c["property_id"] for c in json.load(open(os.path.join(VERIF, "MANIFEST.json")))["checks"]]
    tmp = tempfile.mkdtemp(prefix="csseed_")
    try:
        mutest.copy_repo(tmp)
        r = subprocess.run(["patch", "-p1", "-s", "--no-backup-if-mismatch", "-d", tmp], input=open(patch).read(), text=True,
                           stdout=subprocess.PIPE, stderr=subprocess.STDOUT)
        if r.returncode != 0:
            print("PATCH-FAILED", r.stdout[-500:])
            return 2
        res = {}
        for p in props:
            rc, keys, out = mutest.run_check(p, tmp)
            res[p] = {"rc": rc, "keys": keys}
            if rc == 3:
                res[p]["err"] = out[-800:]
        print(json.dumps(res, indent=1))
        return 0
    finally:
        shutil.rmtree(tmp, ignore_errors=True)


if __name__ == "__main__":
    sys.exit(main(sys.argv[1:]))
