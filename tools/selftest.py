#!/usr/bin/env python3
"""tools/selftest.py [Cxx ...|--all] [--seeds-only|--mutants-only]
Self-test of the checks: (1) every seeded mutant of mutants/Cxx.py must be reported under its expected key and every
silent twin must stay silent; (2) every kept seeded change seeded/<id>/patch.diff of that property must be reported by
the property's check.  Scratch copies of /repo live under $TMPDIR and are removed.  Writes selftest/<Cxx>.json.
Exit 0 = all as expected (skipped patches are listed), 1 = something was missed or a twin alarmed."""
import json
import os
import re
import shutil
import subprocess
import sys
import tempfile
import time

VERIF = os.path.dirname(os.path.dirname(os.path.abspath(__file__)))
sys.path.insert(0, VERIF)
sys.path.insert(0, os.path.join(VERIF, "tools"))
import mutest  # noqa: E402


def seeds_for(prop):
    out = []
    d = os.path.join(VERIF, "seeded")
    for name in sorted(os.listdir(d)) if os.path.isdir(d) else []:
        mp = os.path.join(d, name, "meta.json")
        if os.path.exists(mp) and json.load(open(mp)).get("property") == prop:
            out.append(name)
    return out


def run_seed(prop, name):
    tmp = tempfile.mkdtemp(prefix="csseed_", dir=os.environ.get("TMPDIR", "/tmp"))
    try:
        mutest.copy_repo(tmp)
        r = subprocess.run(["patch", "-p1", "-s", "--no-backup-if-mismatch", "-d", tmp], input=open(os.path.join(VERIF, "seeded", name, "patch.diff")).read(),
                           text=True, stdout=subprocess.PIPE, stderr=subprocess.STDOUT)
        if r.returncode != 0:
            return {"id": name, "status": "SKIPPED", "why": "patch no longer applies to the current tree"}
        rc, keys, out = mutest.run_check(prop, tmp)
        if rc == 3:
            return {"id": name, "status": "ERROR", "why": out[-600:]}
        return {"id": name, "status": "CAUGHT" if keys else "MISSED", "keys": keys[:6]}
    finally:
        shutil.rmtree(tmp, ignore_errors=True)


def selftest(prop, mutants=True, seeds=True, verbose=True):
    t0 = time.time()
    res = {"property": prop, "mutants": [], "seeded": []}
    if mutants and os.path.exists(os.path.join(VERIF, "mutants", prop + ".py")):
        res["mutants"] = [{k: v for k, v in r.items() if k != "bundled"} for r in mutest.run_property(prop, None, verbose)]
    if seeds:
        for s in seeds_for(prop):
            r = run_seed(prop, s)
            res["seeded"].append(r)
            if verbose:
                print("  [%s] seed %s %s %s" % (prop, s, r["status"], (r.get("keys") or [""])[:1]), flush=True)
    res["wall_s"] = round(time.time() - t0, 1)
    bad = [r for r in res["mutants"] + res["seeded"] if r["status"] in ("MISSED", "FALSE-ALARM", "ERROR")]
    res["ok"] = not bad
    return res


def main(argv):
    props = [a for a in argv if re.match(r"C\d+$", a)]
    if "--all" in argv or not props:
        props = sorted(f[:-3] for f in os.listdir(os.path.join(VERIF, "rules")) if re.match(r"C\d+\.py$", f))
    os.makedirs(os.path.join(VERIF, "selftest"), exist_ok=True)
    bad = 0
    for p in props:
        r = selftest(p, mutants="--seeds-only" not in argv, seeds="--mutants-only" not in argv)
        json.dump(r, open(os.path.join(VERIF, "selftest", p + ".json"), "w"), indent=1)
        print("[selftest] %s ok=%s mutants=%s seeded=%s wall=%ss" % (p, r["ok"], {x["id"].split("-")[0]: x["status"] for x in r["mutants"]}, {x["id"]: x["status"] for x in r["seeded"]}, r["wall_s"]), flush=True)
        bad += 0 if r["ok"] else 1
    return 1 if bad else 0


if __name__ == "__main__":
    sys.exit(main(sys.argv[1:]))
