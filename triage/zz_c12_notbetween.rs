//! Demonstration for change C12b (place at tests/seed_C12b.rs).
//!
//! Property C12: statistics-based pruning must never drop a chunk that holds a matching row,
//! for every AND / OR / NOT combination.
//!
//! Query:  metric_name = 'cpu' OR host LIKE 'web-%'
//!
//! Chunk `mem.parquet` only holds metric_name = 'mem' (statistics min = max = "mem"), but one
//! of its rows has host = 'web-1' and therefore satisfies the OR through its second operand.
//! The second operand cannot be expressed as a statistics predicate, so nothing may be pruned
//! on behalf of the first operand alone.

use arrow_array::{Float64Array, Int64Array, RecordBatch, StringArray, TimestampNanosecondArray};
use arrow_schema::{DataType, Field, Schema, TimeUnit};
use cardinalsin::ingester::ChunkMetadata;
use cardinalsin::metadata::{
    ColumnStats, MetadataClient, S3MetadataClient, S3MetadataConfig, TimeRange,
};
use cardinalsin::query::{QueryConfig, QueryNode};
use cardinalsin::StorageConfig;
use object_store::memory::InMemory;
use object_store::path::Path;
use object_store::ObjectStore;
use std::sync::Arc;

const SQL_COUNT: &str =
    "SELECT COUNT(*) AS n FROM metrics WHERE metric_name NOT BETWEEN 'd' AND 'z'";

struct Fixture {
    node: QueryNode,
    client: Arc<S3MetadataClient>,
    range: TimeRange,
}

/// Write one Parquet chunk, register it in the catalog and attach `metric_name` statistics.
#[allow(clippy::too_many_arguments)]
async fn add_chunk(
    data_store: &Arc<InMemory>,
    client: &S3MetadataClient,
    path: &str,
    ts: [i64; 2],
    metric: &str,
    hosts: [&str; 2],
    values: [f64; 2],
) {
    let schema = Arc::new(Schema::new(vec![
        Field::new(
            "timestamp",
            DataType::Timestamp(TimeUnit::Nanosecond, Some("UTC".into())),
            false,
        ),
        Field::new("metric_name", DataType::Utf8, false),
        Field::new("host", DataType::Utf8, true),
        Field::new("value_f64", DataType::Float64, true),
    ]));
    let batch = RecordBatch::try_new(
        schema.clone(),
        vec![
            Arc::new(TimestampNanosecondArray::from(ts.to_vec()).with_timezone("UTC")),
            Arc::new(StringArray::from(vec![metric, metric])),
            Arc::new(StringArray::from(hosts.to_vec())),
            Arc::new(Float64Array::from(values.to_vec())),
        ],
    )
    .unwrap();

    let mut buf = Vec::new();
    {
        let mut writer = parquet::arrow::ArrowWriter::try_new(&mut buf, schema, None).unwrap();
        writer.write(&batch).unwrap();
        writer.close().unwrap();
    }
    let size = buf.len() as u64;
    data_store
        .put(&Path::from(path), buf.into())
        .await
        .unwrap();

    client
        .register_chunk(
            path,
            &ChunkMetadata {
                path: path.to_string(),
                min_timestamp: ts[0],
                max_timestamp: ts[1],
                row_count: 2,
                size_bytes: size,
            },
        )
        .await
        .unwrap();

    let mut all = client.load_chunk_metadata().await.unwrap();
    all.get_mut(path).unwrap().column_stats.insert(
        "metric_name".to_string(),
        ColumnStats {
            min: serde_json::json!(metric),
            max: serde_json::json!(metric),
            has_nulls: false,
        },
    );
    client.save_chunk_metadata(&all).await.unwrap();
}

async fn fixture() -> Fixture {
    let data_store = Arc::new(InMemory::new());
    let client = Arc::new(S3MetadataClient::new(
        Arc::new(InMemory::new()),
        S3MetadataConfig {
            bucket: "test-bucket".to_string(),
            metadata_prefix: "meta/".to_string(),
            enable_cache: true,
            allow_unsafe_overwrite: false,
        },
    ));

    // Rows a few minutes in the past so that the default "last hour" time range covers them.
    let now = chrono::Utc::now().timestamp_nanos_opt().unwrap();
    let t0 = now - 10 * 60 * 1_000_000_000;
    let sec = 1_000_000_000i64;

    // cpu chunk: both rows match through `metric_name = 'cpu'`.
    add_chunk(
        &data_store,
        &client,
        "data/cpu.parquet",
        [t0, t0 + sec],
        "cpu",
        ["db-1", "db-2"],
        [1.0, 2.0],
    )
    .await;
    // mem chunk: the first row matches through `host LIKE 'web-%'`.
    add_chunk(
        &data_store,
        &client,
        "data/mem.parquet",
        [t0 + 2 * sec, t0 + 3 * sec],
        "mem",
        ["web-1", "db-3"],
        [3.0, 4.0],
    )
    .await;

    let metadata: Arc<dyn MetadataClient> = client.clone();
    let node = QueryNode::new(
        QueryConfig::default(),
        data_store.clone(),
        metadata,
        StorageConfig::default(),
    )
    .await
    .unwrap();

    Fixture {
        node,
        client,
        range: TimeRange::new(t0 - sec, t0 + 10 * sec),
    }
}

fn count(batches: &[RecordBatch]) -> i64 {
    batches[0]
        .column(0)
        .as_any()
        .downcast_ref::<Int64Array>()
        .unwrap()
        .value(0)
}


/// `NOT BETWEEN 'd' AND 'z'`: the cpu chunk (statistics min = max = "cpu" < "d") holds only matching rows.
#[tokio::test]
async fn not_between_does_not_prune_matching_chunk() {
    let fx = fixture().await;
    let predicates = fx.node.engine.extract_column_predicates(SQL_COUNT).await.unwrap();
    let chunks = fx.client.get_chunks_with_predicates(fx.range, &predicates).await.unwrap();
    let paths: Vec<_> = chunks.iter().map(|c| c.chunk_path.as_str()).collect();
    assert!(paths.contains(&"data/cpu.parquet"), "cpu chunk pruned; predicates = {:?}, returned = {:?}", predicates, paths);
}

#[tokio::test]
async fn not_between_query_counts_rows() {
    let fx = fixture().await;
    let res = fx.node.query(SQL_COUNT).await.unwrap();
    assert_eq!(count(&res), 2, "the two cpu rows satisfy NOT BETWEEN 'd' AND 'z'");
}
