//! Triage evidence for C15 (split-time reads stay exact) - not a check, see README.md.
//!
//! During the dual-write phase of a split the same row exists in a chunk of the old shard and in a chunk
//! of one new shard.  The property demands that a query issued in that phase returns each ingested row
//! exactly once, keeps rows that merely share timestamp and metric name, and does not inflate aggregates.
//!
//! Every test asserts what the property demands; a failing test confirms the finding named in its comment.

use arrow_array::{Float64Array, RecordBatch, StringArray, TimestampNanosecondArray};
use arrow_schema::{DataType, Field, Schema, TimeUnit};
use cardinalsin::ingester::{ChunkMetadata, ParquetWriter};
use cardinalsin::metadata::{LocalMetadataClient, MetadataClient};
use cardinalsin::query::{QueryConfig, QueryNode};
use cardinalsin::sharding::SplitPhase;
use cardinalsin::StorageConfig;
use object_store::memory::InMemory;
use object_store::path::Path;
use object_store::ObjectStore;
use std::sync::Arc;

fn batch(ts: &[i64], names: &[&str], values: &[f64]) -> RecordBatch {
    let schema = Arc::new(Schema::new(vec![
        Field::new("timestamp", DataType::Timestamp(TimeUnit::Nanosecond, Some("UTC".into())), false),
        Field::new("metric_name", DataType::Utf8, false),
        Field::new("value_f64", DataType::Float64, true),
    ]));
    RecordBatch::try_new(
        schema,
        vec![
            Arc::new(TimestampNanosecondArray::from(ts.to_vec()).with_timezone("UTC")),
            Arc::new(StringArray::from(names.to_vec())),
            Arc::new(Float64Array::from(values.to_vec())),
        ],
    )
    .unwrap()
}

async fn store_chunk(store: &Arc<InMemory>, md: &Arc<LocalMetadataClient>, path: &str, b: &RecordBatch, min: i64, max: i64) {
    let bytes = ParquetWriter::new().write_batch(b).unwrap();
    let size = bytes.len() as u64;
    store.put(&Path::from(path), bytes.into()).await.unwrap();
    md.register_chunk(path, &ChunkMetadata { path: path.to_string(), min_timestamp: min, max_timestamp: max, row_count: b.num_rows() as u64, size_bytes: size })
        .await
        .unwrap();
}

/// old-shard chunk + the double-written copy in a new shard's chunk, split in DualWrite
async fn setup(rows: &RecordBatch, min: i64, max: i64) -> QueryNode {
    let store = Arc::new(InMemory::new());
    let md = Arc::new(LocalMetadataClient::new());
    store_chunk(&store, &md, "data/old/chunk_1.parquet", rows, min, max).await;
    store_chunk(&store, &md, "data/new_a/chunk_1.parquet", rows, min, max).await;
    md.start_split("shard-old", vec!["shard-a".into(), "shard-b".into()], (max + 1).to_be_bytes().to_vec()).await.unwrap();
    md.update_split_progress("shard-old", 0.0, SplitPhase::DualWrite).await.unwrap();
    assert!(md.has_active_split().await.unwrap());
    QueryNode::new(QueryConfig::default(), store.clone(), md.clone(), StorageConfig::default()).await.unwrap()
}

fn total_rows(b: &[RecordBatch]) -> usize {
    b.iter().map(|x| x.num_rows()).sum()
}

/// NEW finding (C15.R6): dedup_batches passes a batch through untouched when it cannot read metric_name as a
/// plain Utf8 array; DataFusion 44 hands parquet strings back as Utf8View (schema_force_view_types = true),
/// so during a split a plain SELECT returns every double-written row twice.
#[tokio::test]
async fn c15_split_time_select_returns_each_row_once() {
    let now = chrono::Utc::now().timestamp_nanos_opt().unwrap();
    let t0 = now - 600_000_000_000;
    let rows = batch(&[t0, t0 + 1, t0 + 2, t0 + 3], &["cpu", "cpu", "mem", "mem"], &[1.0, 2.0, 3.0, 4.0]);
    let node = setup(&rows, t0, t0 + 3).await;
    let out = node.query("SELECT timestamp, metric_name, value_f64 FROM metrics").await.unwrap();
    for b in &out {
        eprintln!("result column types: {:?}", b.schema().fields().iter().map(|f| (f.name().clone(), f.data_type().clone())).collect::<Vec<_>>());
    }
    assert_eq!(total_rows(&out), 4, "each ingested row must come back exactly once during the dual-write phase");
}

/// Known finding C15.R3: de-duplication runs on the statement's result, after aggregation.
#[tokio::test]
async fn c15_split_time_count_is_not_inflated() {
    let now = chrono::Utc::now().timestamp_nanos_opt().unwrap();
    let t0 = now - 600_000_000_000;
    let rows = batch(&[t0, t0 + 1, t0 + 2, t0 + 3], &["cpu", "cpu", "mem", "mem"], &[1.0, 2.0, 3.0, 4.0]);
    let node = setup(&rows, t0, t0 + 3).await;
    let out = node.query("SELECT count(*) AS n FROM metrics").await.unwrap();
    let n = out[0].column(0).as_any().downcast_ref::<arrow_array::Int64Array>().unwrap().value(0);
    assert_eq!(n, 4, "count(*) must not count the double-written copies");
}

/// Known finding C15.R2: where de-duplication does run (metric_name delivered as plain Utf8), its key is
/// (timestamp, metric_name) only, so two series of one metric at one timestamp collapse into one row.
#[tokio::test]
async fn c15_distinct_series_at_one_timestamp_are_all_kept() {
    let now = chrono::Utc::now().timestamp_nanos_opt().unwrap();
    let t0 = now - 600_000_000_000;
    // two series (host a / host b) of metric cpu at the same two timestamps, different values
    let rows = batch(&[t0, t0, t0 + 1, t0 + 1], &["cpu", "cpu", "cpu", "cpu"], &[1.0, 10.0, 2.0, 20.0]);
    let node = setup(&rows, t0, t0 + 1).await;
    let out = node
        .query("SELECT timestamp, arrow_cast(metric_name, 'Utf8') AS metric_name, value_f64 FROM metrics")
        .await
        .unwrap();
    assert_eq!(total_rows(&out), 4, "rows that share timestamp and metric name but differ in value are all kept, each once");
}
