//! Demonstration for seeded change C17a.
//!
//! Property C17: every sample of a Prometheus remote-write request becomes exactly one row
//! carrying its exact timestamp, *metric name*, complete label set and value.
//!
//! The request below is fully spec-compliant: each series' labels are sorted by name
//! (byte-wise, as Prometheus does). Because upper-case ASCII letters sort before '_',
//! a label such as `Env` or `Cluster` legitimately precedes `__name__` in the sorted
//! label set. The rows produced for such a series must still carry the metric name.
//!
//! The request is sent through the real axum handler (`handle_remote_write`) with a
//! snappy-compressed protobuf body; the rows are observed on the ingester's broadcast
//! channel after the (row-count triggered) flush.

use arrow_array::cast::AsArray;
use arrow_array::types::{Float64Type, Int64Type, TimestampNanosecondType, UInt64Type};
use arrow_array::{Array, RecordBatch};
use axum::body::Bytes;
use axum::extract::State;
use axum::http::StatusCode;
use axum::response::IntoResponse;
use cardinalsin::api::ingest::prometheus::handle_remote_write;
use cardinalsin::api::ApiState;
use cardinalsin::ingester::{Ingester, IngesterConfig};
use cardinalsin::metadata::LocalMetadataClient;
use cardinalsin::query::{QueryConfig, QueryNode};
use cardinalsin::schema::MetricSchema;
use cardinalsin::StorageConfig;
use object_store::memory::InMemory;
use std::collections::BTreeMap;
use std::sync::Arc;

// ---------------------------------------------------------------------------
// Minimal protobuf encoder for prometheus.WriteRequest
// ---------------------------------------------------------------------------

fn varint(mut v: u64, out: &mut Vec<u8>) {
    loop {
        let b = (v & 0x7f) as u8;
        v >>= 7;
        if v == 0 {
            out.push(b);
            return;
        }
        out.push(b | 0x80);
    }
}

fn len_delimited(field: u32, payload: &[u8], out: &mut Vec<u8>) {
    varint(((field as u64) << 3) | 2, out);
    varint(payload.len() as u64, out);
    out.extend_from_slice(payload);
}

fn encode_label(name: &str, value: &str) -> Vec<u8> {
    let mut m = Vec::new();
    len_delimited(1, name.as_bytes(), &mut m);
    len_delimited(2, value.as_bytes(), &mut m);
    m
}

fn encode_sample(value: f64, ts_ms: i64) -> Vec<u8> {
    let mut m = Vec::new();
    m.push(0x09); // field 1, fixed64
    m.extend_from_slice(&value.to_le_bytes());
    m.push(0x10); // field 2, varint
    varint(ts_ms as u64, &mut m);
    m
}

struct Series {
    labels: Vec<(&'static str, &'static str)>,
    samples: Vec<(f64, i64)>,
}

fn encode_request(all: &[Series]) -> Vec<u8> {
    let mut req = Vec::new();
    for s in all {
        // Prometheus sorts the label set byte-wise by name before sending.
        let mut labels = s.labels.clone();
        labels.sort();
        let mut ts = Vec::new();
        for (n, v) in &labels {
            len_delimited(1, &encode_label(n, v), &mut ts);
        }
        for (v, t) in &s.samples {
            len_delimited(2, &encode_sample(*v, *t), &mut ts);
        }
        len_delimited(1, &ts, &mut req);
    }
    req
}

// ---------------------------------------------------------------------------
// Receiver under test
// ---------------------------------------------------------------------------

async fn api_state() -> ApiState {
    let store = Arc::new(InMemory::new());
    let metadata = Arc::new(LocalMetadataClient::new());
    let mut cfg = IngesterConfig::default();
    cfg.flush_row_count = 1; // flush (and broadcast) on every accepted request
    cfg.wal.enabled = false;
    let ingester = Arc::new(Ingester::new(
        cfg,
        store.clone(),
        metadata.clone(),
        StorageConfig::default(),
        MetricSchema::default_metrics(),
    ));
    let query_node = Arc::new(
        QueryNode::new(
            QueryConfig::default(),
            store,
            metadata,
            StorageConfig::default(),
        )
        .await
        .unwrap(),
    );
    ApiState {
        ingester,
        query_node,
    }
}

async fn remote_write(state: &ApiState, proto: &[u8]) -> (StatusCode, Option<RecordBatch>) {
    let mut rx = state.ingester.subscribe();
    let body = snap::raw::Encoder::new().compress_vec(proto).unwrap();
    let status = handle_remote_write(State(state.clone()), Bytes::from(body))
        .await
        .into_response()
        .status();
    (status, rx.try_recv().ok())
}


/// A series with labels but no samples is well-formed protobuf; the receiver must answer it
/// (accept as an empty write or reject with an error), never panic.
#[tokio::test]
async fn series_without_samples_does_not_panic() {
    let state = api_state().await;
    let proto = encode_request(&[Series { labels: vec![("__name__", "up"), ("job", "x")], samples: vec![] }]);
    let (status, _) = remote_write(&state, &proto).await;
    assert!(status.is_success() || status.is_client_error(), "status {}", status);
}
