//! Throw-away triage: each test asserts what the PROPERTY demands.
//! A failing / panicking test confirms a genuine defect on the pinned tree.
use arrow_array::{Float64Array, Int64Array, RecordBatch, StringArray, TimestampNanosecondArray};
use arrow_schema::{DataType, Field, Schema, TimeUnit};
use cardinalsin::ingester::{
    persist_flushed_seq, ChunkMetadata, Ingester, IngesterConfig, ParquetWriter, WalConfig,
    WalSyncMode, WriteAheadLog,
};
use cardinalsin::metadata::{
    ColumnPredicate, ColumnStats, LocalMetadataClient, MetadataClient, PredicateValue, TimeRange,
};
use object_store::memory::InMemory;
use object_store::ObjectStore;
use std::collections::HashMap;
use std::sync::Arc;

fn ts_batch(n: usize, start_ts: i64, name: &str) -> RecordBatch {
    let schema = Arc::new(Schema::new(vec![
        Field::new(
            "timestamp",
            DataType::Timestamp(TimeUnit::Nanosecond, Some("UTC".into())),
            false,
        ),
        Field::new("metric_name", DataType::Utf8, false),
        Field::new("value_f64", DataType::Float64, true),
    ]));
    let ts: Vec<i64> = (0..n as i64).map(|i| start_ts + i * 1_000_000).collect();
    let names: Vec<&str> = (0..n).map(|_| name).collect();
    let vals: Vec<f64> = (0..n).map(|i| i as f64).collect();
    RecordBatch::try_new(
        schema,
        vec![
            Arc::new(TimestampNanosecondArray::from(ts).with_timezone("UTC")),
            Arc::new(StringArray::from(names)),
            Arc::new(Float64Array::from(vals)),
        ],
    )
    .unwrap()
}

fn wal_cfg(dir: &std::path::Path, max_seg: usize) -> WalConfig {
    WalConfig {
        wal_dir: dir.to_path_buf(),
        max_segment_size: max_seg,
        sync_mode: WalSyncMode::EveryWrite,
        enabled: true,
    }
}

// C05.R3: append after a torn tail must be recoverable by the next reopen.
#[tokio::test]
async fn c05_torn_tail_then_append_is_recoverable() {
    let dir = tempfile::TempDir::new().unwrap();
    let b = ts_batch(3, 1_000, "m");
    {
        let mut wal = WriteAheadLog::open(wal_cfg(dir.path(), 1 << 20)).await.unwrap();
        wal.append(&b).await.unwrap(); // seq 1 complete
        wal.append(&b).await.unwrap(); // seq 2, will be torn
    }
    // tear the last write: cut 10 bytes off the end of the only segment
    let seg = dir.path().join("segment-000001.wal");
    let len = std::fs::metadata(&seg).unwrap().len();
    let f = std::fs::OpenOptions::new().write(true).open(&seg).unwrap();
    f.set_len(len - 10).unwrap();
    drop(f);
    let acked;
    {
        let mut wal = WriteAheadLog::open(wal_cfg(dir.path(), 1 << 20)).await.unwrap();
        let got: Vec<u64> = wal.read_entries().unwrap().iter().map(|e| e.seq).collect();
        assert_eq!(got, vec![1], "only the complete entry before the tear");
        acked = wal.append(&b).await.unwrap(); // acknowledged after reopen
    }
    let wal = WriteAheadLog::open(wal_cfg(dir.path(), 1 << 20)).await.unwrap();
    let got: Vec<u64> = wal.read_entries().unwrap().iter().map(|e| e.seq).collect();
    assert!(
        got.contains(&acked),
        "entry {acked} appended after reopening must be recoverable, got {got:?}"
    );
}

// C05.R4: no entry may get a sequence number at or below the flushed mark.
#[tokio::test]
async fn c05_seq_never_regresses_below_flushed_mark() {
    let dir = tempfile::TempDir::new().unwrap();
    let b = ts_batch(3, 1_000, "m");
    {
        let mut wal = WriteAheadLog::open(wal_cfg(dir.path(), 1 << 20)).await.unwrap();
        for _ in 0..3 {
            wal.append(&b).await.unwrap(); // seq 1..3 in segment 1
        }
    }
    // crash right after rotate(): the new segment exists and is empty
    std::fs::File::create(dir.path().join("segment-000002.wal")).unwrap();
    // entries 1..3 were flushed
    persist_flushed_seq(dir.path(), 3).unwrap();
    {
        // restart: what Ingester::ensure_wal does
        let mut wal = WriteAheadLog::open(wal_cfg(dir.path(), 1 << 20)).await.unwrap();
        assert_eq!(wal.next_seq(), 4);
        wal.truncate_before(3 + 1).await.unwrap();
    }
    // restart again, nothing written in between
    let mut wal = WriteAheadLog::open(wal_cfg(dir.path(), 1 << 20)).await.unwrap();
    let seq = wal.append(&b).await.unwrap();
    assert!(seq > 3, "new entry got seq {seq} <= flushed mark 3 and will be skipped on recovery");
}

// C12.R1: a chunk whose min equals v must not be pruned for `col <= v`.
#[test]
fn c12_lteq_at_min_endpoint_not_pruned() {
    let mut stats = HashMap::new();
    stats.insert(
        "c".to_string(),
        ColumnStats { min: serde_json::json!(100), max: serde_json::json!(200), has_nulls: false },
    );
    let p = ColumnPredicate::LtEq("c".into(), PredicateValue::Int64(100));
    assert!(p.evaluate_against_stats(&stats), "row with c=100 satisfies c<=100");
    let p = ColumnPredicate::GtEq("c".into(), PredicateValue::Int64(200));
    assert!(p.evaluate_against_stats(&stats), "row with c=200 satisfies c>=200");
}

// C07.R2/R3: an inverted range intersects nothing: empty answer, no panic.
#[tokio::test]
async fn c07_inverted_range_is_empty_not_panic() {
    let c = LocalMetadataClient::new();
    let h = 3_600_000_000_000i64;
    let m = ChunkMetadata { path: "a.parquet".into(), min_timestamp: 0, max_timestamp: 20 * h, row_count: 1, size_bytes: 1 };
    c.register_chunk("a.parquet", &m).await.unwrap();
    let same_bucket = c.get_chunks(TimeRange::new(7, 3)).await.unwrap();
    assert!(same_bucket.is_empty(), "inverted range must match nothing, got {}", same_bucket.len());
    let r = c.get_chunks(TimeRange::new(10 * h, h)).await.unwrap();
    assert!(r.is_empty());
}

// C09.R4: retention must keep a chunk whose newest row is inside the window.
#[tokio::test]
async fn c09_retention_keeps_straddling_chunk() {
    use cardinalsin::compactor::{Compactor, CompactorConfig};
    use cardinalsin::sharding::{HotShardConfig, ShardMonitor};
    let store: Arc<dyn ObjectStore> = Arc::new(InMemory::new());
    let md: Arc<dyn MetadataClient> = Arc::new(LocalMetadataClient::new());
    let now = chrono::Utc::now().timestamp_nanos_opt().unwrap();
    let day = 86_400_000_000_000i64;
    let m = ChunkMetadata { path: "straddle.parquet".into(), min_timestamp: now - 100 * day, max_timestamp: now - day, row_count: 10, size_bytes: 10 };
    md.register_chunk(&m.path, &m).await.unwrap();
    let cfg = CompactorConfig { retention_days: 90, l0_merge_threshold: 1000, sharding_enabled: false, ..Default::default() };
    let comp = Compactor::new(cfg, store, md.clone(), cardinalsin::StorageConfig::default(), Arc::new(ShardMonitor::new(HotShardConfig::default())));
    comp.run_compaction_cycle().await.unwrap();
    assert!(md.get_chunk("straddle.parquet").await.unwrap().is_some(), "chunk with rows one day old was dropped by 90-day retention");
}

// C03.R1: compaction through the Compactor must keep every row reachable.
#[tokio::test]
async fn c03_compactor_conserves_rows() {
    use cardinalsin::compactor::{Compactor, CompactorConfig};
    use cardinalsin::sharding::{HotShardConfig, ShardMonitor};
    let store: Arc<dyn ObjectStore> = Arc::new(InMemory::new());
    let md: Arc<dyn MetadataClient> = Arc::new(LocalMetadataClient::new());
    let now = chrono::Utc::now().timestamp_nanos_opt().unwrap();
    let base = (now / 3_600_000_000_000) * 3_600_000_000_000; // same hour bucket
    let w = ParquetWriter::new();
    for i in 0..3 {
        let b = ts_batch(10, base + i * 1_000_000_000, "m");
        let bytes = w.write_batch(&b).unwrap();
        let path = format!("default/data/c{i}.parquet");
        store.put(&path.clone().into(), bytes.clone().into()).await.unwrap();
        let m = ChunkMetadata { path: path.clone(), min_timestamp: base + i * 1_000_000_000, max_timestamp: base + i * 1_000_000_000 + 9_000_000, row_count: 10, size_bytes: bytes.len() as u64 };
        md.register_chunk(&path, &m).await.unwrap();
    }
    let before: u64 = md.list_chunks().await.unwrap().iter().map(|c| c.row_count).sum();
    assert_eq!(before, 30);
    let cfg = CompactorConfig { l0_merge_threshold: 2, sharding_enabled: false, ..Default::default() };
    let comp = Compactor::new(cfg, store, md.clone(), cardinalsin::StorageConfig::default(), Arc::new(ShardMonitor::new(HotShardConfig::default())));
    let r = comp.run_compaction_cycle().await;
    let after: u64 = md.list_chunks().await.unwrap().iter().map(|c| c.row_count).sum();
    assert_eq!(after, 30, "rows reachable through the catalog after one cycle (cycle result {r:?})");
}

// C19: routing must return (a node or an error) when the assigned node drained.
#[tokio::test(flavor = "multi_thread", worker_threads = 2)]
async fn c19_route_write_terminates_after_drain() {
    use cardinalsin::cluster::*;
    let nodes = Arc::new(NodeRegistry::new(30));
    let asg = Arc::new(ShardAssignment::new(nodes.clone(), AssignmentStrategy::ConsistentHash));
    nodes.register_node(NodeInfo::new("n1".into(), "127.0.0.1:1".parse().unwrap(), NodeType::Ingester)).await;
    let router = Arc::new(DistributedWriteRouter::new(asg, nodes.clone()));
    assert!(router.route_write("s1").await.unwrap().is_some());
    nodes.drain_node("n1").await;
    let r2 = router.clone();
    let h = tokio::spawn(async move { r2.route_write("s1").await.map(|n| n.map(|x| x.id)) });
    let abort = h.abort_handle();
    let out = tokio::time::timeout(std::time::Duration::from_secs(2), h).await;
    abort.abort();
    assert!(out.is_ok(), "route_write did not return within 2 s");
}

// C18.R1: a disjunctive WHERE must deliver rows matching either side.
#[test]
fn c18_or_filter_delivers_either_side() {
    use cardinalsin::query::QueryFilter;
    let schema = Arc::new(Schema::new(vec![
        Field::new("timestamp", DataType::Int64, false),
        Field::new("host", DataType::Utf8, false),
    ]));
    let batch = RecordBatch::try_new(schema, vec![
        Arc::new(Int64Array::from(vec![10, 11, 12])),
        Arc::new(StringArray::from(vec!["a", "b", "c"])),
    ]).unwrap();
    let f = QueryFilter::from_sql("SELECT * FROM metrics WHERE host = 'a' OR host = 'b'");
    let rows = f.apply(&batch, 0).unwrap().map(|b| b.num_rows()).unwrap_or(0);
    assert_eq!(rows, 2);
}

// C11: a COPY / CREATE statement must be rejected and must not write.
#[tokio::test]
async fn c11_copy_to_is_rejected() {
    use cardinalsin::query::{QueryConfig, QueryNode};
    use futures::TryStreamExt;
    let store: Arc<dyn ObjectStore> = Arc::new(InMemory::new());
    let md: Arc<dyn MetadataClient> = Arc::new(LocalMetadataClient::new());
    let q = QueryNode::new(QueryConfig { l2_cache_dir: None, ..Default::default() }, store.clone(), md, cardinalsin::StorageConfig::default()).await.unwrap();
    let r = q.query("COPY (SELECT 1 AS a) TO 's3://cardinalsin-data/default/data/evil.parquet'").await;
    let objs: Vec<_> = store.list(None).try_collect().await.unwrap();
    assert!(objs.is_empty(), "query interface created objects: {:?} (result ok={})", objs.iter().map(|o| o.location.to_string()).collect::<Vec<_>>(), r.is_ok());
    assert!(r.is_err());
    let r = q.query("CREATE TABLE evil AS SELECT 1 AS a").await;
    assert!(r.is_err(), "DDL accepted");
}

// C16.R3: head / conditional reads must equal the backing store's answer.
#[tokio::test]
async fn c16_get_opts_head_and_conditional_match_inner() {
    use cardinalsin::query::{CacheConfig, CachedObjectStore, TieredCache};
    use object_store::GetOptions;
    let inner: Arc<dyn ObjectStore> = Arc::new(InMemory::new());
    let p: object_store::path::Path = "k/obj".into();
    inner.put(&p, bytes::Bytes::from_static(b"0123456789").into()).await.unwrap();
    let cache = Arc::new(TieredCache::new(CacheConfig { l1_size: 1 << 20, l2_size: 0, l2_dir: None }).await.unwrap());
    let cached = CachedObjectStore::new(inner.clone(), cache);
    let past = chrono::Utc::now() - chrono::Duration::days(1);
    let o = GetOptions { if_unmodified_since: Some(past), ..Default::default() };
    let a = inner.get_opts(&p, o.clone()).await.is_ok();
    let b = cached.get_opts(&p, o).await.is_ok();
    assert_eq!(a, b, "if_unmodified_since(past): inner ok={a}, cached ok={b}");
    let o = GetOptions { head: true, ..Default::default() };
    let a = inner.get_opts(&p, o.clone()).await.unwrap().bytes().await.unwrap();
    let b = cached.get_opts(&p, o).await.unwrap().bytes().await.unwrap();
    assert_eq!(a, b, "head read differs");
}

// C17.R1: a hostile length varint must be answered with 400, not a panic.
#[tokio::test]
async fn c17_hostile_varint_length_is_400() {
    use axum::extract::State;
    use axum::response::IntoResponse;
    use cardinalsin::query::{QueryConfig, QueryNode};
    let store: Arc<dyn ObjectStore> = Arc::new(InMemory::new());
    let md: Arc<dyn MetadataClient> = Arc::new(LocalMetadataClient::new());
    let ing = Arc::new(Ingester::new(IngesterConfig { wal: WalConfig { enabled: false, ..Default::default() }, ..Default::default() }, store.clone(), md.clone(), cardinalsin::StorageConfig::default(), cardinalsin::schema::MetricSchema::default_metrics()));
    let qn = Arc::new(QueryNode::new(QueryConfig { l2_cache_dir: None, ..Default::default() }, store, md, cardinalsin::StorageConfig::default()).await.unwrap());
    let state = cardinalsin::api::ApiState { ingester: ing, query_node: qn };
    // field 1, wire type 2, length = u64::MAX
    let mut raw = vec![0x0a];
    raw.extend_from_slice(&[0xff, 0xff, 0xff, 0xff, 0xff, 0xff, 0xff, 0xff, 0xff, 0x01]);
    let body = snap::raw::Encoder::new().compress_vec(&raw).unwrap();
    let resp = cardinalsin::api::ingest::prometheus::handle_remote_write(State(state), body.into()).await.into_response();
    assert_eq!(resp.status(), axum::http::StatusCode::BAD_REQUEST);
}

// C04.R2: the extracted window must contain every timestamp the WHERE admits.
#[tokio::test]
async fn c04_or_time_bounds_are_an_over_approximation() {
    use cardinalsin::query::{QueryConfig, QueryNode};
    let store: Arc<dyn ObjectStore> = Arc::new(InMemory::new());
    let md: Arc<dyn MetadataClient> = Arc::new(LocalMetadataClient::new());
    let q = QueryNode::new(QueryConfig { l2_cache_dir: None, ..Default::default() }, store, md, cardinalsin::StorageConfig::default()).await.unwrap();
    let r = q.engine.extract_time_range("SELECT * FROM metrics WHERE timestamp < 10 OR timestamp > 100").await.unwrap();
    assert!(r.start <= 5 && r.end >= 200, "window ({}, {}) excludes admitted timestamps 5 and 200", r.start, r.end);
}

// C14.R3: cut-over must be resumable after "create shard A" already took effect.
#[tokio::test]
async fn c14_cutover_resumes_after_created_shard() {
    use cardinalsin::sharding::{ShardMetadata, ShardSplitter, ShardState, SplitPhase};
    let store: Arc<dyn ObjectStore> = Arc::new(InMemory::new());
    let md: Arc<dyn MetadataClient> = Arc::new(LocalMetadataClient::new());
    let old = ShardMetadata { shard_id: "old".into(), generation: 0, key_range: (vec![0], vec![255]), replicas: vec![], state: ShardState::Active, min_time: 0, max_time: 1000 };
    md.update_shard_metadata("old", &old, 0).await.unwrap();
    md.start_split("old", vec!["A".into(), "B".into()], 500i64.to_be_bytes().to_vec()).await.unwrap();
    md.update_split_progress("old", 1.0, SplitPhase::Backfill).await.unwrap();
    // the create of shard A took effect, then the process died before recording it
    let a = ShardMetadata { shard_id: "A".into(), generation: 0, key_range: (vec![0], 500i64.to_be_bytes().to_vec()), replicas: vec![], state: ShardState::Active, min_time: 0, max_time: 500 };
    md.update_shard_metadata("A", &a, 0).await.unwrap();
    let sp = ShardSplitter::new(md.clone(), store);
    let r = sp.cutover("old").await;
    assert!(r.is_ok(), "resume of cut-over failed: {r:?}");
}

// ---------- controllable object store ----------
use async_trait::async_trait;
use futures::stream::BoxStream;
use object_store::{GetOptions, GetResult, ListResult, MultipartUpload, ObjectMeta, PutMultipartOpts, PutOptions, PutPayload, PutResult};
use std::sync::atomic::{AtomicBool, AtomicUsize, Ordering};

#[derive(Debug)]
struct CtlStore {
    inner: InMemory,
    gate_data_puts: AtomicBool,
    entered: tokio::sync::Notify,
    release: tokio::sync::Notify,
    fail_next_data_puts: AtomicUsize,
}
impl std::fmt::Display for CtlStore { fn fmt(&self, f: &mut std::fmt::Formatter<'_>) -> std::fmt::Result { write!(f, "CtlStore") } }
#[async_trait]
impl ObjectStore for CtlStore {
    async fn put_opts(&self, location: &object_store::path::Path, payload: PutPayload, opts: PutOptions) -> object_store::Result<PutResult> {
        if location.as_ref().ends_with(".parquet") {
            if self.fail_next_data_puts.load(Ordering::SeqCst) > 0 {
                self.fail_next_data_puts.fetch_sub(1, Ordering::SeqCst);
                return Err(object_store::Error::Generic { store: "ctl", source: "injected".into() });
            }
            if self.gate_data_puts.swap(false, Ordering::SeqCst) {
                self.entered.notify_one();
                self.release.notified().await;
            }
        }
        self.inner.put_opts(location, payload, opts).await
    }
    async fn put_multipart_opts(&self, l: &object_store::path::Path, o: PutMultipartOpts) -> object_store::Result<Box<dyn MultipartUpload>> { self.inner.put_multipart_opts(l, o).await }
    async fn get_opts(&self, l: &object_store::path::Path, o: GetOptions) -> object_store::Result<GetResult> { self.inner.get_opts(l, o).await }
    async fn delete(&self, l: &object_store::path::Path) -> object_store::Result<()> { self.inner.delete(l).await }
    fn list(&self, p: Option<&object_store::path::Path>) -> BoxStream<'_, object_store::Result<ObjectMeta>> { self.inner.list(p) }
    async fn list_with_delimiter(&self, p: Option<&object_store::path::Path>) -> object_store::Result<ListResult> { self.inner.list_with_delimiter(p).await }
    async fn copy(&self, a: &object_store::path::Path, b: &object_store::path::Path) -> object_store::Result<()> { self.inner.copy(a, b).await }
    async fn copy_if_not_exists(&self, a: &object_store::path::Path, b: &object_store::path::Path) -> object_store::Result<()> { self.inner.copy_if_not_exists(a, b).await }
}
fn ctl() -> Arc<CtlStore> { Arc::new(CtlStore { inner: InMemory::new(), gate_data_puts: AtomicBool::new(false), entered: tokio::sync::Notify::new(), release: tokio::sync::Notify::new(), fail_next_data_puts: AtomicUsize::new(0) }) }
fn mk_ingester(store: Arc<CtlStore>, md: Arc<dyn MetadataClient>, dir: &std::path::Path, flush_rows: usize) -> Ingester {
    Ingester::new(IngesterConfig { flush_row_count: flush_rows, wal: wal_cfg(dir, 1 << 20), ..Default::default() }, store, md, cardinalsin::StorageConfig::default(), cardinalsin::schema::MetricSchema::default_metrics())
}
async fn stored_rows(md: &Arc<dyn MetadataClient>) -> u64 { md.list_chunks().await.unwrap().iter().map(|c| c.row_count).sum() }

// C01.R4: a write acknowledged while another flush is in flight must survive a crash.
#[tokio::test(flavor = "multi_thread", worker_threads = 2)]
async fn c01_ack_during_inflight_flush_survives_crash() {
    let dir = tempfile::TempDir::new().unwrap();
    let store = ctl();
    let md: Arc<dyn MetadataClient> = Arc::new(LocalMetadataClient::new());
    let now = chrono::Utc::now().timestamp_nanos_opt().unwrap();
    let mut ing = mk_ingester(store.clone(), md.clone(), dir.path(), 2);
    ing.ensure_wal().await.unwrap();
    let ing = Arc::new(ing);
    store.gate_data_puts.store(true, Ordering::SeqCst);
    let i2 = ing.clone();
    let t = tokio::spawn(async move { i2.write(ts_batch(2, now, "a")).await }); // triggers a flush, parks in put
    store.entered.notified().await;
    ing.write(ts_batch(1, now + 1_000_000_000, "b")).await.unwrap(); // ACKNOWLEDGED, stays in buffer
    store.release.notify_one();
    t.await.unwrap().unwrap();
    assert_eq!(stored_rows(&md).await, 2);
    assert_eq!(ing.buffer_stats().await.row_count, 1);
    drop(ing); // crash
    let mut ing2 = mk_ingester(store, md.clone(), dir.path(), 1000);
    ing2.ensure_wal().await.unwrap();
    let recovered = ing2.buffer_stats().await.row_count as u64;
    assert_eq!(stored_rows(&md).await + recovered, 3, "acknowledged row neither stored nor recovered");
}

// C01.R5: rows acknowledged before a failed flush must not be lost.
#[tokio::test]
async fn c01_failed_flush_does_not_lose_acked_rows() {
    let dir = tempfile::TempDir::new().unwrap();
    let store = ctl();
    let md: Arc<dyn MetadataClient> = Arc::new(LocalMetadataClient::new());
    let now = chrono::Utc::now().timestamp_nanos_opt().unwrap();
    let mut ing = mk_ingester(store.clone(), md.clone(), dir.path(), 2);
    ing.ensure_wal().await.unwrap();
    ing.write(ts_batch(1, now, "a")).await.unwrap(); // acked, buffered
    store.fail_next_data_puts.store(1, Ordering::SeqCst);
    let r = ing.write(ts_batch(1, now + 1, "b")).await; // triggers flush, upload fails
    assert!(r.is_err());
    ing.write(ts_batch(2, now + 2, "c")).await.unwrap(); // acked, flush succeeds
    let in_mem = ing.buffer_stats().await.row_count as u64;
    drop(ing); // crash
    let mut ing2 = mk_ingester(store, md.clone(), dir.path(), 1000);
    ing2.ensure_wal().await.unwrap();
    let recovered = ing2.buffer_stats().await.row_count as u64;
    let stored = stored_rows(&md).await;
    assert!(stored + recovered >= 3, "acked rows a(1)+c(2)=3, stored {stored} + recovered {recovered} (in memory before crash {in_mem})");
}

// C10: a statement must run against the chunk set selected for it.
#[tokio::test]
async fn c10_statement_sees_its_own_chunk_set() {
    use cardinalsin::query::{QueryConfig, QueryNode};
    let store: Arc<dyn ObjectStore> = Arc::new(InMemory::new());
    let md: Arc<dyn MetadataClient> = Arc::new(LocalMetadataClient::new());
    let w = ParquetWriter::new();
    for (p, n) in [("default/data/one.parquet", 1usize), ("default/data/two.parquet", 2usize)] {
        let bytes = w.write_batch(&ts_batch(n, 1_000, "m")).unwrap();
        store.put(&p.into(), bytes.into()).await.unwrap();
    }
    let q = QueryNode::new(QueryConfig { l2_cache_dir: None, ..Default::default() }, store, md, cardinalsin::StorageConfig::default()).await.unwrap();
    let eng = q.engine.clone();
    let eng2 = q.engine.clone();
    // query 1 selected chunk "one"; between its registration and its planning query 2 registers "two"
    let out = eng.with_metrics_table(&["default/data/one.parquet".to_string()], || async move {
        eng2.register_metrics_table_for_chunks(&["default/data/two.parquet".to_string()]).await?; // the other query
        eng2.execute("SELECT count(*) FROM metrics").await
    }).await.unwrap();
    use arrow_array::cast::AsArray;
    let c = out[0].column(0).as_primitive::<arrow_array::types::Int64Type>().value(0);
    assert_eq!(c, 1, "query 1 was evaluated against query 2's chunk set");
}

// C13.R3: of several updates based on one generation at most one succeeds.
#[tokio::test(flavor = "multi_thread", worker_threads = 4)]
async fn c13_local_same_generation_at_most_one_wins() {
    use cardinalsin::sharding::{ShardMetadata, ShardState};
    let md = Arc::new(LocalMetadataClient::new());
    let mk = |g: u64| ShardMetadata { shard_id: "s".into(), generation: g, key_range: (vec![0], vec![255]), replicas: vec![], state: ShardState::Active, min_time: 0, max_time: 1 };
    md.update_shard_metadata("s", &mk(0), 0).await.unwrap();
    let mut gen = 1u64;
    for round in 0..30_000u32 {
        let bar = Arc::new(std::sync::Barrier::new(3));
        let mut hs = vec![];
        for _ in 0..3 {
            let (md, bar, m) = (md.clone(), bar.clone(), mk(gen));
            hs.push(tokio::task::spawn_blocking(move || { bar.wait(); futures::executor::block_on(md.update_shard_metadata("s", &m, gen)).is_ok() }));
        }
        let mut ok = 0;
        for h in hs { if h.await.unwrap() { ok += 1; } }
        assert!(ok <= 1, "round {round}: {ok} updates based on generation {gen} succeeded");
        gen += 1;
    }
}

// C14.R2: a split interrupted right after the first progress record must be resumable.
#[tokio::test(start_paused = true)]
async fn c14_resume_from_initial_progress() {
    use cardinalsin::sharding::{ShardMetadata, ShardSplitter, ShardState};
    let store: Arc<dyn ObjectStore> = Arc::new(InMemory::new());
    let md: Arc<dyn MetadataClient> = Arc::new(LocalMetadataClient::new());
    let old = ShardMetadata { shard_id: "old".into(), generation: 0, key_range: (vec![0], vec![255]), replicas: vec![], state: ShardState::Active, min_time: 0, max_time: 1000 };
    md.update_shard_metadata("old", &old, 0).await.unwrap();
    let progress = serde_json::json!({"fence_token":"f","old_shard":"old","new_shards":["A","B"],"split_point":500i64.to_be_bytes().to_vec(),"completed_phase":null,"shard_a_created":false,"shard_b_created":false,"old_shard_deactivated":false});
    store.put(&"metadata/split-progress/old.json".into(), serde_json::to_vec(&progress).unwrap().into()).await.unwrap();
    let sp = ShardSplitter::new(md.clone(), store);
    let r = sp.resume_split("old").await;
    assert!(r.is_ok(), "resume from the first recorded state failed: {r:?}");
}

// C14.R4: resume after the cut-over's last step took effect (phase not yet recorded).
#[tokio::test(start_paused = true)]
async fn c14_resume_after_complete_split() {
    use cardinalsin::sharding::{ShardMetadata, ShardSplitter, ShardState, SplitPhase};
    let store: Arc<dyn ObjectStore> = Arc::new(InMemory::new());
    let md: Arc<dyn MetadataClient> = Arc::new(LocalMetadataClient::new());
    let old = ShardMetadata { shard_id: "old".into(), generation: 0, key_range: (vec![0], vec![255]), replicas: vec![], state: ShardState::Active, min_time: 0, max_time: 1000 };
    md.update_shard_metadata("old", &old, 0).await.unwrap();
    md.start_split("old", vec!["A".into(), "B".into()], 500i64.to_be_bytes().to_vec()).await.unwrap();
    md.update_split_progress("old", 1.0, SplitPhase::Backfill).await.unwrap();
    let sp = ShardSplitter::new(md.clone(), store);
    sp.cutover("old").await.unwrap(); // all sub-steps incl. complete_split done; progress still says "Backfill completed"
    let r = sp.resume_split("old").await; // crash before the phase was recorded, then resume
    assert!(r.is_ok(), "resume after complete_split failed: {r:?}");
}

// C03.R3: the swap must refuse an unknown target / vanished sources, on both backends.
#[tokio::test]
async fn c03_swap_preconditions() {
    let md = LocalMetadataClient::new();
    let m = |p: &str| ChunkMetadata { path: p.into(), min_timestamp: 0, max_timestamp: 10, row_count: 5, size_bytes: 5 };
    md.register_chunk("s1", &m("s1")).await.unwrap();
    let r = md.complete_compaction(&["s1".to_string()], "never_registered").await;
    let still = md.get_chunk("s1").await.unwrap().is_some();
    assert!(r.is_err() || still, "in-memory swap dropped the source for an unknown target");
}
#[tokio::test]
async fn c03_swap_with_vanished_sources_duplicates() {
    use cardinalsin::metadata::{S3MetadataClient, S3MetadataConfig};
    let store: Arc<dyn ObjectStore> = Arc::new(InMemory::new());
    let md = S3MetadataClient::new(store, S3MetadataConfig { bucket: "b".into(), metadata_prefix: "metadata/".into(), enable_cache: false, allow_unsafe_overwrite: false });
    let m = |p: &str| ChunkMetadata { path: p.into(), min_timestamp: 0, max_timestamp: 10, row_count: 5, size_bytes: 5 };
    for p in ["s1", "s2", "t1", "t2"] { md.register_chunk(p, &m(p)).await.unwrap(); }
    let src = vec!["s1".to_string(), "s2".to_string()];
    md.complete_compaction(&src, "t1").await.unwrap();
    let r = md.complete_compaction(&src, "t2").await; // second compactor, stale candidate list
    let rows: u64 = md.list_chunks().await.unwrap().iter().map(|c| c.row_count).sum();
    assert!(r.is_err(), "second publication of the same sources accepted; catalog now holds {rows} rows for 10 ingested");
}

#[tokio::test]
async fn c07_inverted_range_across_buckets() {
    let c = LocalMetadataClient::new();
    let h = 3_600_000_000_000i64;
    let m = ChunkMetadata { path: "a.parquet".into(), min_timestamp: 0, max_timestamp: 20 * h, row_count: 1, size_bytes: 1 };
    c.register_chunk("a.parquet", &m).await.unwrap();
    let r = c.get_chunks(TimeRange::new(10 * h, h)).await.unwrap();
    assert!(r.is_empty());
}
#[tokio::test]
async fn c07_simple_upper_bound_query_does_not_panic() {
    use cardinalsin::query::{QueryConfig, QueryNode};
    let store: Arc<dyn ObjectStore> = Arc::new(InMemory::new());
    let md: Arc<dyn MetadataClient> = Arc::new(LocalMetadataClient::new());
    let m = ChunkMetadata { path: "default/data/a.parquet".into(), min_timestamp: 0, max_timestamp: 10, row_count: 1, size_bytes: 1 };
    md.register_chunk(&m.path, &m).await.unwrap();
    let q = QueryNode::new(QueryConfig { l2_cache_dir: None, ..Default::default() }, store, md, cardinalsin::StorageConfig::default()).await.unwrap();
    let _ = q.query("SELECT count(*) FROM metrics WHERE timestamp < 1000").await;
}
